// Package c05: json.Valid and every syntax-only path accept exactly the
// language encoding/json accepts.
package c05

import (
	"bytes"
	stdjson "encoding/json"
	"fmt"
	"io"
	"strings"

	"github.com/segmentio/encoding/json"
	"verifharness/core"
	"verifharness/gen/jsondoc"
)

type rawMarshaler struct{ d []byte }

func (m rawMarshaler) MarshalJSON() ([]byte, error) { return m.d, nil }

type rawHolder struct {
	K stdjson.RawMessage `json:"k"`
}

// consumer: a syntax-only path of the package and the same operation in the
// standard library; both see the same bytes and must agree on accept/reject.
type consumer struct {
	name string
	// wrap builds the bytes actually handed to the two implementations.
	wrap func(d []byte) []byte
	pkg  func(w []byte) error
	std  func(w []byte) error
}

func cp(b []byte) []byte { return append([]byte(nil), b...) }

func errOf(ok bool) error {
	if ok {
		return nil
	}
	return io.ErrUnexpectedEOF
}

func decodeAll(newDec func(r io.Reader) func(v any) error, w []byte) (vals [][]byte, term error) {
	dec := newDec(bytes.NewReader(w))
	for i := 0; i < len(w)+2; i++ {
		var raw stdjson.RawMessage
		if err := dec(&raw); err != nil {
			return vals, err
		}
		vals = append(vals, cp(raw))
	}
	return vals, fmt.Errorf("decoder did not terminate")
}

var consumers = []consumer{
	{name: "valid", wrap: func(d []byte) []byte { return d },
		pkg: func(w []byte) error { return errOf(json.Valid(w)) },
		std: func(w []byte) error { return errOf(stdjson.Valid(w)) }},
	{name: "marshal-rawmessage", wrap: func(d []byte) []byte { return d },
		pkg: func(w []byte) error { _, err := json.Marshal(json.RawMessage(w)); return err },
		std: func(w []byte) error { _, err := stdjson.Marshal(stdjson.RawMessage(w)); return err }},
	{name: "marshal-marshaler", wrap: func(d []byte) []byte { return d },
		pkg: func(w []byte) error { _, err := json.Marshal(rawMarshaler{w}); return err },
		std: func(w []byte) error { _, err := stdjson.Marshal(rawMarshaler{w}); return err }},
	{name: "marshal-rawmessage-field", wrap: func(d []byte) []byte { return d },
		pkg: func(w []byte) error { _, err := json.Marshal(&rawHolder{K: w}); return err },
		std: func(w []byte) error { _, err := stdjson.Marshal(&rawHolder{K: w}); return err }},
	// raw values among valid siblings, in the positions the sorted and the unsorted map encoders
	// and the slice encoder visit first, in between and last
	{name: "marshal-rawmessage-map-first", wrap: func(d []byte) []byte { return d },
		pkg: func(w []byte) error {
			_, err := json.Marshal(map[string]json.RawMessage{"a": w, "b": json.RawMessage(`1`), "c": json.RawMessage(`[2]`)})
			return err
		},
		std: func(w []byte) error {
			_, err := stdjson.Marshal(map[string]stdjson.RawMessage{"a": w, "b": stdjson.RawMessage(`1`), "c": stdjson.RawMessage(`[2]`)})
			return err
		}},
	{name: "marshal-rawmessage-map-middle", wrap: func(d []byte) []byte { return d },
		pkg: func(w []byte) error {
			_, err := json.Marshal(map[string]json.RawMessage{"a": json.RawMessage(`{}`), "b": w, "c": json.RawMessage(`"x"`)})
			return err
		},
		std: func(w []byte) error {
			_, err := stdjson.Marshal(map[string]stdjson.RawMessage{"a": stdjson.RawMessage(`{}`), "b": w, "c": stdjson.RawMessage(`"x"`)})
			return err
		}},
	{name: "marshal-rawmessage-slice", wrap: func(d []byte) []byte { return d },
		pkg: func(w []byte) error {
			_, err := json.Marshal([]json.RawMessage{json.RawMessage(`0`), w, json.RawMessage(`null`)})
			return err
		},
		std: func(w []byte) error {
			_, err := stdjson.Marshal([]stdjson.RawMessage{stdjson.RawMessage(`0`), w, stdjson.RawMessage(`null`)})
			return err
		}},
	{name: "marshal-marshaler-map", wrap: func(d []byte) []byte { return d },
		pkg: func(w []byte) error {
			_, err := json.Marshal(map[string]any{"a": rawMarshaler{w}, "b": 1, "c": rawMarshaler{[]byte(`true`)}})
			return err
		},
		std: func(w []byte) error {
			_, err := stdjson.Marshal(map[string]any{"a": rawMarshaler{w}, "b": 1, "c": rawMarshaler{[]byte(`true`)}})
			return err
		}},
	{name: "unmarshal-rawmessage", wrap: func(d []byte) []byte { return d },
		pkg: func(w []byte) error { var r json.RawMessage; return json.Unmarshal(w, &r) },
		std: func(w []byte) error { var r stdjson.RawMessage; return stdjson.Unmarshal(w, &r) }},
	{name: "unknown-field-skip", wrap: func(d []byte) []byte { return append(append([]byte(`{"k":`), d...), '}') },
		pkg: func(w []byte) error { var s struct{}; return json.Unmarshal(w, &s) },
		std: func(w []byte) error { var s struct{}; return stdjson.Unmarshal(w, &s) }},
	{name: "rawmessage-field", wrap: func(d []byte) []byte { return append(append([]byte(`{"k":`), d...), '}') },
		pkg: func(w []byte) error { var s rawHolder; return json.Unmarshal(w, &s) },
		std: func(w []byte) error { var s rawHolder; return stdjson.Unmarshal(w, &s) }},
	{name: "array-surplus", wrap: func(d []byte) []byte { return append(append([]byte(`[0,`), d...), ']') },
		pkg: func(w []byte) error { var s [1]int; return json.Unmarshal(w, &s) },
		std: func(w []byte) error { var s [1]int; return stdjson.Unmarshal(w, &s) }},
	{name: "array0-surplus", wrap: func(d []byte) []byte { return append(append([]byte(`[`), d...), ']') },
		pkg: func(w []byte) error { var s [0]int; return json.Unmarshal(w, &s) },
		std: func(w []byte) error { var s [0]int; return stdjson.Unmarshal(w, &s) }},
	// the document in key position: only a valid string makes a valid object, for every target
	// that reads keys in its own way (struct fields, no fields, map, interface)
	{name: "key-struct", wrap: func(d []byte) []byte { return append(append([]byte(`{`), d...), []byte(`:1}`)...) },
		pkg: func(w []byte) error { var s struct{ A, B int }; return json.Unmarshal(w, &s) },
		std: func(w []byte) error { var s struct{ A, B int }; return stdjson.Unmarshal(w, &s) }},
	{name: "key-empty-struct", wrap: func(d []byte) []byte { return append(append([]byte(`[{"x":0,`), d...), []byte(`:{}}]`)...) },
		pkg: func(w []byte) error { var s []struct{}; return json.Unmarshal(w, &s) },
		std: func(w []byte) error { var s []struct{}; return stdjson.Unmarshal(w, &s) }},
	{name: "key-map", wrap: func(d []byte) []byte { return append(append([]byte(`{`), d...), []byte(`:1}`)...) },
		pkg: func(w []byte) error { var s map[string]any; return json.Unmarshal(w, &s) },
		std: func(w []byte) error { var s map[string]any; return stdjson.Unmarshal(w, &s) }},
	// fewer elements than the Go array has slots: the syntax of what is there is still checked
	{name: "array-short", wrap: func(d []byte) []byte { return append(append([]byte(`[`), d...), ']') },
		pkg: func(w []byte) error { var s [3]any; return json.Unmarshal(w, &s) },
		std: func(w []byte) error { var s [3]any; return stdjson.Unmarshal(w, &s) }},
	{name: "array-short-nested", wrap: func(d []byte) []byte { return append(append([]byte(`{"a":[[`), d...), []byte(`],[2]]}`)...) },
		pkg: func(w []byte) error { var s struct{ A [2][4]any }; return json.Unmarshal(w, &s) },
		std: func(w []byte) error { var s struct{ A [2][4]any }; return stdjson.Unmarshal(w, &s) }},
	{name: "interface-skip", wrap: func(d []byte) []byte { return append(append([]byte(`{"a":1,"k":`), d...), []byte(`,"b":2}`)...) },
		pkg: func(w []byte) error { var s struct{ A, B int }; return json.Unmarshal(w, &s) },
		std: func(w []byte) error { var s struct{ A, B int }; return stdjson.Unmarshal(w, &s) }},
}

const decoderConsumer = 100 // pseudo index for the Decoder framing consumer

func verdict(e error) string {
	if e == nil {
		return "accept"
	}
	return "reject"
}

func runConsumer(c *core.Case, family string, ci int, d []byte) {
	if ci == decoderConsumer {
		runDecoder(c, family, d)
		return
	}
	cons := consumers[ci]
	if len(d) == 0 && strings.HasPrefix(cons.name, "marshal") {
		return // nil/empty raw messages are "null" by definition, not a syntax question
	}
	w := cons.wrap(d)
	w2 := cp(w)
	var ep, es error
	if sig, stack := core.Guard(func() { ep = cons.pkg(w2) }); sig != "" {
		c.Violation(family+"|"+cons.name, sig, fmt.Sprintf("%s on %q: %s", cons.name, w, stack), map[string]any{"consumer": cons.name, "input": string(w)})
		return
	}
	es = cons.std(cp(w))
	if (ep == nil) != (es == nil) {
		c.Violation(family+"|"+cons.name, "pkg="+verdict(ep)+",ref="+verdict(es), fmt.Sprintf("%s on %q: pkg err=%v, std err=%v", cons.name, w, ep, es),
			map[string]any{"consumer": cons.name, "input": string(w), "doc": string(d)})
	}
	if !bytes.Equal(w, w2) {
		c.Violation(family+"|"+cons.name, "input-modified", fmt.Sprintf("%s modified its input %q -> %q", cons.name, w, w2), nil)
	}
}

func runDecoder(c *core.Case, family string, d []byte) {
	for _, w := range [][]byte{d, append(append(cp(d), ' '), d...), append(cp(d), d...)} {
		var pv, sv [][]byte
		var pe, se error
		if sig, stack := core.Guard(func() {
			pv, pe = decodeAll(func(r io.Reader) func(any) error { return json.NewDecoder(r).Decode }, cp(w))
		}); sig != "" {
			c.Violation(family+"|decoder", sig, fmt.Sprintf("Decoder on %q: %s", w, stack), map[string]any{"input": string(w)})
			return
		}
		sv, se = decodeAll(func(r io.Reader) func(any) error { return stdjson.NewDecoder(r).Decode }, w)
		same := len(pv) == len(sv) && (pe == io.EOF) == (se == io.EOF)
		if same {
			for i := range pv {
				if !bytes.Equal(pv[i], sv[i]) {
					same = false
				}
			}
		}
		if !same {
			out := "values-diff"
			if len(pv) > len(sv) {
				out = "pkg=more-values"
			} else if len(pv) < len(sv) {
				out = "pkg=fewer-values"
			} else if (pe == io.EOF) != (se == io.EOF) {
				out = "terminal-diff"
			}
			c.Violation(family+"|decoder", out, fmt.Sprintf("Decoder framing of %q: pkg %d values then %v; std %d values then %v", w, len(pv), pe, len(sv), se),
				map[string]any{"consumer": "decoder", "input": string(w)})
		}
	}
}

var nCons = len(consumers) + 1

func consIndex(k int) int {
	k %= nCons
	if k == len(consumers) {
		return decoderConsumer
	}
	return k
}

func checkDoc(c *core.Case, family string, ord int, d []byte, all bool) {
	runConsumer(c, family, 0, d)
	if all {
		for k := 1; k < nCons; k++ {
			runConsumer(c, family, consIndex(k), d)
		}
	} else {
		runConsumer(c, family, consIndex(1+ord%(nCons-1)), d)
	}
}

// exhaustive enumeration --------------------------------------------------------

type chunk struct {
	L     int
	start int64
	n     int64
}

func pow(b, e int) int64 {
	r := int64(1)
	for i := 0; i < e; i++ {
		r *= int64(b)
	}
	return r
}

func chunks(alpha, maxLen int, size int64) []chunk {
	var cs []chunk
	for L := 0; L <= maxLen; L++ {
		total := pow(alpha, L)
		for s := int64(0); s < total; s += size {
			n := size
			if s+n > total {
				n = total - s
			}
			cs = append(cs, chunk{L, s, n})
		}
	}
	return cs
}

func byteLen(t core.Tier) int {
	if t == core.Thorough {
		return 5
	}
	return 4
}

var byteChunksQ, byteChunksT = chunks(len(jsondoc.Bytes32), 4, 8192), chunks(len(jsondoc.Bytes32), 5, 8192)
var tokChunksQ, tokChunksT = chunks(len(jsondoc.Tokens), 3, 4000), chunks(len(jsondoc.Tokens), 4, 4000)

func runBytesExh(c *core.Case) {
	cs := byteChunksQ
	if c.Tier == core.Thorough {
		cs = byteChunksT
	}
	ch := cs[c.Index]
	c.Journal("bytes-exhaustive")
	A := jsondoc.Bytes32
	d := make([]byte, ch.L)
	for i := int64(0); i < ch.n; i++ {
		v := ch.start + i
		for k := ch.L - 1; k >= 0; k-- {
			d[k] = A[v%int64(len(A))]
			v /= int64(len(A))
		}
		checkDoc(c, "bytes-exhaustive", int(ch.start+i), d, c.Tier == core.Thorough)
	}
	c.Count("docs.bytes-exhaustive", int(ch.n))
	c.Distinct(core.Mix(uint64(ch.L), uint64(ch.start)), ch.L > 0)
	c.Sample(ch.L, map[string]any{"sub": "bytes-exhaustive", "length": ch.L, "first_ordinal": ch.start, "documents": ch.n, "alphabet": string(A)})
}

func runTokExh(c *core.Case) {
	cs := tokChunksQ
	if c.Tier == core.Thorough {
		cs = tokChunksT
	}
	ch := cs[c.Index]
	c.Journal("tokens-exhaustive")
	T := jsondoc.Tokens
	idx := make([]int, ch.L)
	var d []byte
	for i := int64(0); i < ch.n; i++ {
		v := ch.start + i
		for k := ch.L - 1; k >= 0; k-- {
			idx[k] = int(v % int64(len(T)))
			v /= int64(len(T))
		}
		d = d[:0]
		for _, k := range idx {
			d = append(d, T[k]...)
		}
		checkDoc(c, "tokens-exhaustive", int(ch.start+i), d, c.Tier == core.Thorough)
	}
	c.Count("docs.tokens-exhaustive", int(ch.n))
	c.Distinct(core.Mix(uint64(ch.L)+100, uint64(ch.start)), ch.L > 0)
	c.Sample(ch.L, map[string]any{"sub": "tokens-exhaustive", "tokens_per_doc": ch.L, "first_ordinal": ch.start, "documents": ch.n})
}

// string sweep: content length x position x special sequence ---------------------

var specials = []string{`"`, `\`, "\x1f", "\x00", "\x7f", "\x80", `\"`, `A`, `\x`, `\u12`, `\\`, "\xff", "\n", `\ud800`, `é`, "é"}

func runStringSweep(c *core.Case) {
	L := c.Index
	c.Journal("string-sweep")
	n := 0
	for p := 0; p <= L; p++ {
		for si, sp := range specials {
			body := strings.Repeat("a", p) + sp + strings.Repeat("b", L-p)
			for vi, d := range []string{`"` + body + `"`, `"` + body, `["` + body + `"]`, `{"` + body + `":1}`, `"` + body + `" `} {
				checkDoc(c, "string-sweep", n+si+vi, []byte(d), c.Tier == core.Thorough || vi == 0)
				n++
			}
		}
	}
	c.Count("docs.string-sweep", n)
	c.Distinct(uint64(L)+5000, true)
	c.Sample(L, map[string]any{"sub": "string-sweep", "content_length": L, "positions": L + 1, "special_sequences": specials, "documents": n})
}

// number grammar product ------------------------------------------------------------

func runNumberGrammar(c *core.Case) {
	c.Journal("number-grammar")
	signs := []string{"", "-", "+", "--"}
	ints := []string{"", "0", "1", "12", "01", "00", "9", "a"}
	fracs := []string{"", ".", ".0", ".5", ".12", ".a", "..", ".5.5"}
	exps := []string{"", "e", "E", "e1", "E+1", "e-1", "e+", "e-", "e1.5", "ee1", "e01", "E00"}
	sign := signs[c.Index%len(signs)]
	n := 0
	for _, i := range ints {
		for _, f := range fracs {
			for _, e := range exps {
				num := sign + i + f + e
				for vi, d := range []string{num, "[" + num + "]", `{"a":` + num + `}`, num + " ", "[" + num + "," + num + "]", num + "\n" + num} {
					checkDoc(c, "number-grammar", n+vi, []byte(d), true)
					n++
				}
			}
		}
	}
	c.Count("docs.number-grammar", n)
	c.Distinct(uint64(c.Index)+7000, true)
	c.Sample(1, map[string]any{"sub": "number-grammar", "sign": sign, "documents": n})
}

// nesting depth ---------------------------------------------------------------------

var depths = []int{1, 2, 100, 1000, 5000, 9999, 10000, 10001, 10002, 12000, 20000}

// what sits at the bottom: a scalar, or one more (empty) level that counts like any other
var innermost = []string{"1", "[]", "{}", "[ ]", `""`, "[[]]", `{"":{}}`, "null"}

func runNesting(c *core.Case) {
	depth := depths[c.Index%len(depths)]
	shape := (c.Index / len(depths)) % 3
	inner := innermost[c.Index/(3*len(depths))]
	cl := "nesting<=10000"
	if depth > 10000 {
		cl = "nesting>10000"
	}
	c.Journal(cl)
	var open, close string
	switch shape {
	case 0:
		open, close = "[", "]"
	case 1:
		open, close = `{"a":`, "}"
	default:
		open, close = `[{"k":`, "}]"
		depth /= 2
	}
	d := []byte(strings.Repeat(open, depth) + inner + strings.Repeat(close, depth))
	for k := 0; k < nCons; k++ {
		ci := consIndex(k)
		if ci == decoderConsumer {
			continue
		}
		runConsumerClass(c, cl, ci, d)
	}
	c.Count("docs.nesting", 1)
	c.Distinct(uint64(c.Index)+9000, true)
	c.Sample(depth, map[string]any{"sub": "nesting", "depth": depth, "open": open, "innermost": inner})
}

func runConsumerClass(c *core.Case, class string, ci int, d []byte) {
	runConsumer(c, class, ci, d)
}

// generated / mutated -------------------------------------------------------------------

func runMutated(c *core.Case) {
	c.Journal("mutated")
	o := jsondoc.DefaultOpts
	if c.Rng.Chance(1, 20) {
		o.MaxDepth, o.MaxElems, o.MaxString = 7, 12, 200
	}
	for i := 0; i < 16; i++ {
		doc := jsondoc.Valid(c.Rng, o)
		if !c.Rng.Chance(1, 4) {
			doc = jsondoc.Mutate(c.Rng, doc)
		}
		if c.Rng.Chance(1, 40) {
			doc = string(c.Rng.Bytes(c.Rng.Intn(24)))
		}
		checkDoc(c, "mutated", c.Rng.Intn(1000), []byte(doc), c.Rng.Chance(1, 8))
		c.Distinct(core.HashString(doc), len(doc) > 4)
		if i == 0 {
			c.Sample(len(doc), map[string]any{"sub": "mutated", "doc": trunc(doc)})
		}
	}
	c.Count("docs.mutated", 16)
}

// decoder-stream: streams longer than the Decoder's read quantum (4 KiB) and
// initial buffer (32 KiB) whose early part is printable ASCII without
// backslashes and whose later values contain escapes, control bytes and
// non-ASCII bytes (and the reverse order): whatever the Decoder concluded about
// one buffer-full must not leak into the framing of the next.
var hostileTails = []string{`"a\"b"`, `"tab\there"`, "\"ctl\x01\"", `"bad\qescape"`, "\"é\"", `"\u00e9"`, `{"a\\":1}`, "\"\x7f\"", `"\ud800"`, `["x\\"]`,
	`"\\"`, `{"k":"v\n"}`, "\"new\nline\"", `"q\"`, `"\u12"`, "[\"\x00\"]", `"ok"`, "{\"\t\":1}", `"\/"`, "\"\xff\xfe\""}

func cleanValue(r *core.Rand) string {
	switch r.Intn(4) {
	case 0:
		return `{"k":"` + r.ASCIIString(0, 40) + `","n":[1,2,3]}`
	case 1:
		return `"` + r.ASCIIString(0, 80) + `"`
	case 2:
		return `[` + `"` + r.ASCIIString(1, 10) + `",true,null]`
	default:
		return `{"id":{"x":"` + r.ASCIIString(3, 300) + `"}}`
	}
}

func runDecoderStream(c *core.Case) {
	c.Journal("decoder-stream")
	r := c.Rng
	targets := []int{3900, 4090, 8100, 32600, 32760, 33000, 65400, 70000, 140000}
	target := targets[c.Index%len(targets)] + r.Intn(200)
	var sb strings.Builder
	seps := []string{" ", "\n", "", "\r\n", "  \t"}
	hostileFirst := r.Chance(1, 4)
	emitTail := func() {
		n := 1 + r.Intn(4)
		for i := 0; i < n; i++ {
			sb.WriteString(hostileTails[r.Intn(len(hostileTails))])
			sb.WriteString(core.Pick(r, seps))
		}
	}
	if hostileFirst {
		emitTail()
	}
	if c.Index%4 == 3 {
		// one long valid value whose first buffer-full is plain ASCII without a backslash and
		// whose escapes, quotes and non-ASCII characters only come later: framing hints computed
		// on the first read must not be applied to the bytes read afterwards
		sb.WriteString("[\"")
		for sb.Len() < target {
			sb.WriteByte(byte('a' + r.Intn(26)))
		}
		esc := []string{"\\n", "\\\"", "\\\\", "é", "\\u00e9", "x"}
		for n := r.Range(5, 2000); n > 0; n-- {
			sb.WriteString(esc[r.Intn(len(esc))])
		}
		sb.WriteString("\",{\"a\\\"b\":1}]")
		sb.WriteString(core.Pick(r, seps))
	}
	for sb.Len() < target {
		if r.Chance(1, 3) {
			// bare numbers and literals end where the next byte says so: wherever a refill
			// boundary falls inside them or right behind them, they are one value
			sb.WriteString(core.Pick(r, []string{"0", "-1", "12345678901234567890", "1.5", "-2.5e-3", "1E400", "true", "false", "null", "123456", "0.000001", "9e9"}))
			sb.WriteString(core.Pick(r, seps[:2]))
			continue
		}
		sb.WriteString(cleanValue(r))
		sb.WriteString(core.Pick(r, seps))
	}
	emitTail()
	for i := 0; i < 3; i++ {
		sb.WriteString(cleanValue(r))
		sb.WriteString(core.Pick(r, seps))
	}
	w := []byte(sb.String())
	var pv, sv [][]byte
	var pe, se error
	if sig, stack := core.Guard(func() {
		pv, pe = decodeAll(func(rd io.Reader) func(any) error { return json.NewDecoder(rd).Decode }, cp(w))
	}); sig != "" {
		c.Violation("decoder-stream", sig, stack, map[string]any{"stream_len": len(w), "tail": trunc(string(w[max(0, len(w)-400):]))})
		return
	}
	sv, se = decodeAll(func(rd io.Reader) func(any) error { return stdjson.NewDecoder(rd).Decode }, w)
	same := len(pv) == len(sv) && (pe == io.EOF) == (se == io.EOF)
	firstDiff := -1
	for i := 0; same && i < len(pv); i++ {
		if !bytes.Equal(pv[i], sv[i]) {
			same = false
			firstDiff = i
		}
	}
	if !same {
		out := "values-diff"
		if len(pv) > len(sv) {
			out = "pkg=more-values"
		} else if len(pv) < len(sv) {
			out = "pkg=fewer-values"
		} else if (pe == io.EOF) != (se == io.EOF) {
			out = "terminal-diff"
		}
		off := 0
		for i := 0; i < len(pv) && i < len(sv) && bytes.Equal(pv[i], sv[i]); i++ {
			off += len(pv[i])
		}
		c.Violation("decoder-stream", out, fmt.Sprintf("stream of %d bytes (hostile values %s): pkg %d values then %v; std %d values then %v; first differing value #%d", len(w), map[bool]string{true: "first", false: "after the clean prefix"}[hostileFirst], len(pv), pe, len(sv), se, firstDiff),
			map[string]any{"stream_len": len(w), "stream_tail": trunc(string(w[max(0, len(w)-600):]))})
	}
	c.Count("docs.decoder-stream", 1)
	c.Count("values.decoder-stream", len(sv))
	c.Distinct(core.HashBytes(w), true)
	c.Sample(len(w)/1000, map[string]any{"sub": "decoder-stream", "stream_len": len(w), "values": len(sv), "std_terminal": fmt.Sprint(se), "tail": trunc(string(w[max(0, len(w)-120):]))})
}

func trunc(s string) string {
	if len(s) > 300 {
		return s[:300] + "…"
	}
	return s
}

func init() {
	core.Register(&core.Monitor{
		Prop:    "C05",
		Rule:    "Every document goes through json.Valid and through syntax-only consumers (Marshal of RawMessage / Marshaler output / RawMessage field / RawMessage among valid siblings in maps and slices, Unmarshal into RawMessage, unknown-field skip, RawMessage field, surplus elements of [1]int and [0]int, arrays with fewer elements than slots, the document in key position of struct, empty-struct and map targets, skipped member between known fields, Decoder framing of d, 'd d' and 'dd'); each is compared with the same operation of encoding/json on the same bytes (accept/reject; for the Decoder the framed values and EOF-vs-error). Families: bytes-exhaustive (all strings of length <= 4 (quick) / 5 (thorough) over a 35-byte JSON-significant alphabet), tokens-exhaustive (all sequences of <= 3 / 4 tokens over a 40-token alphabet), string-sweep (content length 0-40 x every position x 16 special sequences x 5 contexts), number-grammar (sign x int x frac x exp product in 6 contexts), nesting (depth 1..20000 around 10000, the innermost value a scalar or one or two more empty levels), mutated (generated documents with 1-3 byte mutations), decoder-stream (streams of 4-140 KiB of self-delimiting values and bare numbers and literals: printable-ASCII values followed or preceded by values with escapes, control and non-ASCII bytes, framed by Decoder vs encoding/json's Decoder). Quick runs one rotating consumer per document besides Valid, thorough all of them. Distinct = distinct chunk / document; non-trivial = non-empty.",
		Trusted: []string{"encoding/json (go1.23.5): Valid, Marshal, Unmarshal, Decoder as the reference for accept/reject"},
		Subs: []core.Sub{
			{Name: "bytes-exhaustive", N: func(t core.Tier) int {
				if t == core.Thorough {
					return len(byteChunksT)
				}
				return len(byteChunksQ)
			}, Run: runBytesExh},
			{Name: "tokens-exhaustive", N: func(t core.Tier) int {
				if t == core.Thorough {
					return len(tokChunksT)
				}
				return len(tokChunksQ)
			}, Run: runTokExh},
			{Name: "string-sweep", N: core.Const(41, 41), Run: runStringSweep},
			{Name: "number-grammar", N: core.Const(4, 4), Run: runNumberGrammar},
			{Name: "nesting", N: func(core.Tier) int { return 3 * len(depths) * len(innermost) }, Run: runNesting},
			{Name: "mutated", N: core.Const(12000, 400000), Run: runMutated},
			{Name: "decoder-stream", N: core.Const(900, 20000), Run: runDecoderStream},
		},
	})
}
