package jtypes

import (
	stdjson "encoding/json"
	"math/big"
	"net"
	"reflect"
	"strconv"
	"time"
)

// A third batch of declared types: standard-library marshalers in every position, embedded
// non-struct types, promoted marshalers, field names that need escaping.

type EInt int

func (e EInt) MarshalJSON() ([]byte, error) { return []byte(`"e` + strconv.Itoa(int(e)) + `"`), nil }

type PlainInt int
type PlainStr string
type PlainSlice []int
type PlainMap map[string]int

// EmbNonStruct embeds named non-struct types: each is a field named after its type.
type EmbNonStruct struct {
	PlainInt
	PlainStr `json:"ps,omitempty"`
	PlainSlice
	PlainMap `json:",omitempty"`
	Z        int
}

// PromotedMarshaler gets MarshalJSON from the embedded MV: the whole struct is encoded by it.
type PromotedMarshaler struct {
	MV
	Extra int
}

// PromotedText gets MarshalText from the embedded TV.
type PromotedText struct {
	TV
	Extra int
}

// PromotedPtr embeds a pointer to a type with a pointer-receiver marshaler.
type PromotedPtr struct {
	*MP
	Extra int
}

type StdTypes struct {
	T   time.Time
	PT  *time.Time
	TS  []time.Time
	TM  map[string]time.Time
	BI  big.Int
	PBI *big.Int
	BF  *big.Float
	IP  net.IP
	IPs []net.IP
	KN  map[int8]time.Time
	T0  time.Time  `json:",omitempty"`
	PT0 *time.Time `json:",omitempty"`
	TSt time.Time  `json:",string"`
}

type RawTypes struct {
	R   stdjson.RawMessage
	PR  *stdjson.RawMessage
	RS  []stdjson.RawMessage
	RM  map[string]stdjson.RawMessage
	RA  [2]stdjson.RawMessage
	N   stdjson.Number
	NS  []stdjson.Number
	NM  map[string]stdjson.Number
	KN  map[stdjson.Number]int
	PN  *stdjson.Number
	N0  stdjson.Number `json:",omitempty"`
	NSt stdjson.Number `json:",string"`
	B   []byte         `json:",omitempty"`
	BA  [3]byte        `json:"ba"`
	PB  *[]byte
	BS  [][]byte
	BM  map[string][]byte
}

// EscNames: field names that need escaping in JSON text and in HTML.
type EscNames struct {
	A int    `json:"a<b"`
	B int    `json:"x&y"`
	C string `json:"é世"`
	D bool   `json:"sp ace"`
	E int    `json:"dollar$"`
	F int    `json:"quote'"`
	G int    `json:"-,"`
	H int    `json:"very_long_field_name_0123456789_0123456789_0123456789_0123456789_0123456789_0123456789"`
	I int    `json:" "`
	J int    `json:"tab\t"` // invalid tag name: falls back to the Go name
}

type ArrMarsh struct {
	A [2]MP
	B [2]TP
	C [1]*MP
	D [0]MP
	E [3]MV
	F *[2]MP
	G []*[1]TP
}

type Unsupp struct {
	U  uintptr
	F  func()       `json:"-"`
	C  chan int     `json:"-"`
	X  complex128   `json:"-"`
	M  map[bool]int `json:"-"`
	Ok int
}

// Shadowing by names that cancel each other: two own fields with the same JSON name are both
// dropped, and still hide the field of that name an embedded struct would promote.
type ShadowInner struct {
	ID   int    `json:"id"`
	Name string `json:"name"`
	Only string `json:"only"`
}

type ShadowOuter struct {
	First  int `json:"id"`
	Second int `json:"id"`
	ShadowInner
}

type ShadowOuterP struct {
	A string `json:"name"`
	B string `json:"name"`
	*ShadowInner
	Z int
}

type ShadowDeep struct {
	ShadowOuter
	X int `json:"x"`
}

var Library3 = []reflect.Type{
	reflect.TypeOf(ShadowOuter{}), reflect.TypeOf(ShadowOuterP{}), reflect.TypeOf(ShadowDeep{}),
	reflect.TypeOf(EInt(0)), reflect.TypeOf(EmbNonStruct{}), reflect.TypeOf(PromotedMarshaler{}), reflect.TypeOf(PromotedText{}), reflect.TypeOf(PromotedPtr{}),
	reflect.TypeOf(StdTypes{}), reflect.TypeOf(RawTypes{}), reflect.TypeOf(EscNames{}), reflect.TypeOf(ArrMarsh{}), reflect.TypeOf(Unsupp{}),
	reflect.TypeOf(map[time.Time]string(nil)), reflect.TypeOf([]big.Int(nil)), reflect.TypeOf(map[string]*big.Int(nil)),
}

// TimeKeys: maps keyed by time.Time are only encoded (two decoded copies do not compare equal
// key by key, and encoding/json hands the raw, still escaped key to Time.UnmarshalJSON).
type TimeKeys struct {
	KT map[time.Time]int
	S  string
}

func init() {
	Library = append(Library, Library3...)
	Library = append(Library, reflect.TypeOf(TimeKeys{}))
	for _, t := range Library3 {
		if t.Kind() == reflect.Map && t.Key() == reflect.TypeOf(time.Time{}) {
			continue
		}
		DecodeLibrary = append(DecodeLibrary, t)
	}
}
