#!/bin/bash
# usage: run_all.sh [quick|thorough]   runs every claimed check and prints one summary line each
tier=${1:-quick}
cd /verif
for id in $(jq -r '.checks[].property_id' MANIFEST.json); do
  out=$(./check $id $tier 2>&1); rc=$?
  echo "$out" | grep -E "^$id |^VIOLATION|^INCONCLUSIVE|^BUILD" | cut -c1-260
  echo "   -> exit $rc"
done
