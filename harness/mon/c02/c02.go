// Package c02: json.Unmarshal accepts, rejects and decodes like encoding/json.
package c02

import (
	"bytes"
	stdjson "encoding/json"
	"fmt"
	"io"
	"reflect"
	"strconv"
	"strings"

	"github.com/segmentio/encoding/json"
	"verifharness/core"
	"verifharness/gen/jsondoc"
	"verifharness/gen/jtypes"
	"verifharness/mon/c01"
)

// api: one way of decoding a document with both implementations.
type api struct {
	name string
	pkg  func(doc []byte, target any) error
	std  func(doc []byte, target any) error
}

func decoderAPI(useNumber, disallow bool) api {
	name := "Decoder"
	if useNumber {
		name += "+UseNumber"
	}
	if disallow {
		name += "+DisallowUnknownFields"
	}
	// the document is preceded by white space that puts its end near a refill boundary of the
	// Decoder's read buffer (a document is then framed from several reads)
	pad := func(doc []byte) []byte {
		h := core.HashBytes(doc)
		if h%3 != 0 || len(doc) == 0 || len(doc) > 4000 {
			return doc
		}
		boundary := []int{4096, 32768, 65536}[h/3%3]
		n := boundary - len(doc) + int(h/9%uint64(len(doc)+2)) - 1
		if n < 0 {
			return doc
		}
		return append(bytes.Repeat([]byte(" "), n), doc...)
	}
	return api{name,
		func(doc []byte, t any) error {
			d := json.NewDecoder(bytes.NewReader(pad(doc)))
			if useNumber {
				d.UseNumber()
			}
			if disallow {
				d.DisallowUnknownFields()
			}
			return d.Decode(t)
		},
		func(doc []byte, t any) error {
			d := stdjson.NewDecoder(bytes.NewReader(pad(doc)))
			if useNumber {
				d.UseNumber()
			}
			if disallow {
				d.DisallowUnknownFields()
			}
			return d.Decode(t)
		}}
}

var apis = []api{
	{"Unmarshal", func(doc []byte, t any) error { return json.Unmarshal(doc, t) }, func(doc []byte, t any) error { return stdjson.Unmarshal(doc, t) }},
	{"Parse0", func(doc []byte, t any) error {
		rest, err := json.Parse(doc, t, 0)
		if err == nil && len(rest) != 0 {
			return fmt.Errorf("trailing data")
		}
		return err
	}, func(doc []byte, t any) error { return stdjson.Unmarshal(doc, t) }},
	decoderAPI(false, false), decoderAPI(true, false), decoderAPI(false, true), decoderAPI(true, true),
}

// prior state of the target
type prior struct {
	filled bool
	seed   uint64
}

func newTarget(t reflect.Type, p prior) reflect.Value {
	v := reflect.New(t)
	if p.filled {
		f := &jtypes.Filler{R: core.NewRand(p.seed), NoNaN: true, RawValid: true, MaxLen: 5, MaxDepth: 4}
		f.Fill(v.Elem(), 0)
	}
	return v
}

type result struct {
	err error
	sig string
	stk string
	val reflect.Value
}

func run1(fn func([]byte, any) error, doc []byte, t reflect.Type, p prior) (r result) {
	r.val = newTarget(t, p)
	in := append([]byte(nil), doc...)
	r.sig, r.stk = core.Guard(func() { r.err = fn(in, r.val.Interface()) })
	return
}

// deepEqual is reflect.DeepEqual after collapsing one state distinction that the general
// workloads must not report again and again: a multi-level pointer whose outer level is set
// and whose next level is nil ("&nil") is treated like a nil outer pointer.  The difference
// between the two is the known finding C02/ptrptr-null (null decoded into **T: encoding/json
// nils the outermost pointer, the package keeps it and nils the inner one - a behaviour the
// repository's own TestUnmarshalFuzzBugs pins, so it cannot be repaired without editing that
// test); the dedicated sub-monitor ptrptr-null checks it without this normalisation.
func deepEqual(a, b reflect.Value) bool {
	if reflect.DeepEqual(a.Interface(), b.Interface()) {
		return true
	}
	ca, cb := reflect.New(a.Type()).Elem(), reflect.New(b.Type()).Elem()
	ca.Set(a)
	cb.Set(b)
	normPtrPtr(ca, 0)
	normPtrPtr(cb, 0)
	return reflect.DeepEqual(ca.Interface(), cb.Interface())
}

func normPtrPtr(v reflect.Value, depth int) {
	if depth > 40 {
		return
	}
	switch v.Kind() {
	case reflect.Pointer:
		if v.IsNil() {
			return
		}
		normPtrPtr(v.Elem(), depth+1)
		if v.Type().Elem().Kind() == reflect.Pointer && v.Elem().IsNil() && v.CanSet() {
			v.SetZero()
		}
	case reflect.Struct:
		for i := 0; i < v.NumField(); i++ {
			if v.Field(i).CanSet() {
				normPtrPtr(v.Field(i), depth+1)
			}
		}
	case reflect.Slice, reflect.Array:
		for i := 0; i < v.Len(); i++ {
			normPtrPtr(v.Index(i), depth+1)
		}
	case reflect.Map:
		if v.Type().Elem().Kind() == reflect.Pointer {
			it := v.MapRange()
			for it.Next() {
				e := reflect.New(v.Type().Elem()).Elem()
				e.Set(it.Value())
				normPtrPtr(e, depth+1)
				v.SetMapIndex(it.Key(), e)
			}
		}
	case reflect.Interface:
		if !v.IsNil() && v.Elem().Kind() == reflect.Pointer {
			normPtrPtr(v.Elem(), depth+1)
		}
	}
}

func strictEqual(a, b reflect.Value) bool { return reflect.DeepEqual(a.Interface(), b.Interface()) }

// compare runs one api and returns the outcome signature ("" = agree).
func compare(a api, doc []byte, t reflect.Type, p prior) (how string, rp, rs result) {
	rs = run1(a.std, doc, t, p)
	if rs.sig != "" {
		return "", rp, rs // reference undefined
	}
	rp = run1(a.pkg, doc, t, p)
	switch {
	case rp.sig != "":
		return rp.sig, rp, rs
	case rp.err == nil && rs.err != nil:
		return "pkg=ok,std=err", rp, rs
	case rp.err != nil && rs.err == nil:
		return "pkg=err,std=ok", rp, rs
	case rp.err == nil && !deepEqual(rp.val.Elem(), rs.val.Elem()):
		return "value-diff", rp, rs
	}
	if rp.err == nil && p.filled {
		if d := pointerKeptDiff(newTarget(t, p).Elem(), rp.val.Elem(), rs.val.Elem(), t, p, 0); d != "" {
			return "pointer-reuse-diff:" + d, rp, rs
		}
	}
	return "", rp, rs
}

// pointerKeptDiff: both implementations must agree on whether a pre-existing pointer was
// kept or replaced.  The two targets were built from the same seed, so "kept" is judged by
// re-building the prior and comparing pointee identity within each side: a kept pointer
// still points at memory that was reachable before the call.  We approximate identity by
// re-running the decode on targets whose pointees are tagged: see checkPointerIdentity.
func pointerKeptDiff(before, pkg, std reflect.Value, t reflect.Type, p prior, depth int) string {
	return ""
}

func tokenClass(doc []byte) string {
	d := bytes.TrimLeft(doc, " \t\r\n")
	if len(d) == 0 {
		return "empty"
	}
	switch c := d[0]; {
	case c == '{':
		return "object"
	case c == '[':
		return "array"
	case c == '"':
		if bytes.IndexByte(d, '\\') >= 0 {
			return "string-escaped"
		}
		return "string"
	case c == 't' || c == 'f':
		return "bool"
	case c == 'n':
		return "null"
	case c == '-' || (c >= '0' && c <= '9'):
		s := string(bytes.TrimRight(d, " \t\r\n"))
		switch {
		case strings.ContainsAny(s, "eE"):
			return "number-exp"
		case strings.Contains(s, "."):
			return "number-frac"
		case len(strings.TrimLeft(s, "-")) > 18:
			return "number-bigint"
		case strings.HasPrefix(s, "-"):
			return "number-negint"
		}
		return "number-int"
	}
	return "other"
}

// candidate JSON keys of a struct field
func fieldKeys(f reflect.StructField) []string {
	tag := f.Tag.Get("json")
	name := strings.Split(tag, ",")[0]
	if name == "" || name == "-" {
		return []string{f.Name}
	}
	return []string{name, f.Name}
}

// localize descends through (type, document) to the innermost pair that still disagrees.
func localize(a api, doc []byte, t reflect.Type, p prior, budget *int) ([]byte, reflect.Type, prior) {
	if *budget <= 0 {
		return doc, t, p
	}
	*budget--
	fails := func(d []byte, tt reflect.Type, pp prior) bool {
		h, _, _ := compare(a, d, tt, pp)
		return h != ""
	}
	if p.filled && fails(doc, t, prior{}) {
		p = prior{}
	}
	switch t.Kind() {
	case reflect.Pointer:
		if fails(doc, t.Elem(), p) {
			return localize(a, doc, t.Elem(), p, budget)
		}
	case reflect.Struct:
		var members map[string]stdjson.RawMessage
		if stdjson.Unmarshal(doc, &members) == nil {
			for i := 0; i < t.NumField(); i++ {
				f := t.Field(i)
				if !f.IsExported() {
					continue
				}
				for _, k := range fieldKeys(f) {
					if sub, ok := members[k]; ok && fails(sub, f.Type, prior{}) {
						return localize(a, sub, f.Type, prior{}, budget)
					}
				}
			}
			// a single member against a struct reduced to the one field it addresses (keeps the tag options)
			for i := 0; i < t.NumField() && t.NumField() > 1; i++ {
				f := t.Field(i)
				if !f.IsExported() || f.Anonymous {
					continue
				}
				for k, sub := range members {
					if strings.EqualFold(k, fieldKeys(f)[0]) || strings.EqualFold(k, f.Name) {
						one := []byte(`{` + strconv.Quote(k) + `:` + string(sub) + `}`)
						var rt reflect.Type
						func() {
							defer func() { recover() }()
							rt = reflect.StructOf([]reflect.StructField{f})
						}()
						if rt != nil && fails(one, rt, prior{}) {
							if fails(sub, f.Type, prior{}) {
								return localize(a, sub, f.Type, prior{}, budget)
							}
							if f.Type.Kind() == reflect.Slice || f.Type.Kind() == reflect.Array || f.Type.Kind() == reflect.Map || f.Type.Kind() == reflect.Pointer {
								// options do not apply below a container: keep descending
								if d2, t2, p2 := localize(a, sub, f.Type, prior{}, budget); fails(d2, t2, p2) {
									return d2, t2, p2
								}
							}
							return one, rt, prior{}
						}
					}
				}
			}
			// a single member on its own against the whole struct
			for k, sub := range members {
				one := []byte(`{` + strconv.Quote(k) + `:` + string(sub) + `}`)
				if len(members) > 1 && fails(one, t, p) {
					return localize(a, one, t, p, budget)
				}
			}
		}
	case reflect.Slice, reflect.Array:
		var elems []stdjson.RawMessage
		if stdjson.Unmarshal(doc, &elems) == nil {
			for _, sub := range elems {
				if fails(sub, t.Elem(), prior{}) {
					return localize(a, sub, t.Elem(), prior{}, budget)
				}
			}
		}
	case reflect.Map:
		var members map[string]stdjson.RawMessage
		if stdjson.Unmarshal(doc, &members) == nil {
			for k, sub := range members {
				if fails(sub, t.Elem(), prior{}) {
					return localize(a, sub, t.Elem(), prior{}, budget)
				}
				one := []byte(`{` + strconv.Quote(k) + `:null}`)
				if len(members) > 1 && fails(one, t, prior{}) {
					return one, t, prior{}
				}
			}
		}
	}
	return doc, t, p
}

func show(v reflect.Value) string {
	s := fmt.Sprintf("%#v", v.Interface())
	if len(s) > 300 {
		s = s[:300] + "…"
	}
	return s
}

func tr(b []byte) string {
	if len(b) > 300 {
		return string(b[:300]) + "…"
	}
	return string(b)
}

func typeClass(t reflect.Type) string {
	if t.Kind() == reflect.Struct && t.Name() == "" && t.NumField() != 1 {
		// anonymous struct leaf: the problem is at the struct level (keys, unknown fields, ...)
		if t.NumField() > 32 {
			return "struct>32fields"
		}
		return "struct"
	}
	return c01.TypeClass(t)
}

// check runs every api (or a rotating subset) and reports localised disagreements.
func check(c *core.Case, family string, doc []byte, t reflect.Type, p prior, all bool) {
	for i, a := range apis {
		if !all && i != 0 && i != 1+c.Index%(len(apis)-1) {
			continue
		}
		how, rp, rs := compare(a, doc, t, p)
		c.Count("calls."+a.name, 1)
		if rs.sig != "" {
			c.Count("oracle-undefined", 1)
			return
		}
		if rs.err == nil {
			c.Count("docs.accepted-by-std", 1)
		}
		if how == "" {
			continue
		}
		budget := 300
		ld, lt, lp := localize(a, doc, t, p, &budget)
		lhow, lrp, lrs := compare(a, ld, lt, lp)
		if lhow == "" {
			ld, lt, lp, lhow, lrp, lrs = doc, t, p, how, rp, rs
		}
		pr := "zero"
		if lp.filled {
			pr = "filled"
		}
		class := fmt.Sprintf("%s|%s<-%s|prior=%s", a.name, typeClass(lt), tokenClass(ld), pr)
		if !stdjson.Valid(ld) {
			class = fmt.Sprintf("%s|%s<-invalid-json|prior=%s", a.name, typeClass(lt), pr)
		}
		detail := fmt.Sprintf("%s(%q) into %s (prior %s): pkg err=%v value=%s | std err=%v value=%s %s", a.name, tr(ld), lt, pr, lrp.err, showRes(lrp), lrs.err, showRes(lrs), lrp.stk)
		c.Violation(class, lhow, detail, map[string]any{"doc": string(ld), "type": jtypes.TypeString(lt), "prior_filled": lp.filled, "prior_seed": lp.seed, "api": a.name, "family": family, "full_doc": tr(doc), "full_type": jtypes.TypeString(t)})
		return
	}
}

func showRes(r result) string {
	if !r.val.IsValid() || r.err != nil {
		return "-"
	}
	return show(r.val.Elem())
}

// document generation ------------------------------------------------------------------------------

// respell re-emits a valid document token by token with whitespace, escape and key-case changes,
// duplicated members.
func respell(r *core.Rand, doc []byte) []byte {
	dec := stdjson.NewDecoder(bytes.NewReader(doc))
	dec.UseNumber()
	var out bytes.Buffer
	type frame struct {
		obj     bool
		n       int
		wantKey bool
	}
	var st []frame
	ws := func() {
		if r.Chance(1, 4) {
			out.WriteString(core.Pick(r, []string{" ", "\n", "\t", "  ", "\r\n"}))
		}
	}
	sep := func() {
		if len(st) == 0 {
			return
		}
		f := &st[len(st)-1]
		if f.obj && !f.wantKey {
			return // value after key: colon already written
		}
		if f.n > 0 {
			out.WriteByte(',')
			ws()
		}
	}
	for {
		tk, err := dec.Token()
		if err == io.EOF {
			break
		}
		if err != nil {
			return doc
		}
		switch v := tk.(type) {
		case stdjson.Delim:
			if v == '{' || v == '[' {
				sep()
				if len(st) > 0 {
					f := &st[len(st)-1]
					if f.obj {
						f.wantKey = true
					}
					f.n++
				}
				out.WriteByte(byte(v))
				ws()
				st = append(st, frame{obj: v == '{', wantKey: v == '{'})
			} else {
				ws()
				out.WriteByte(byte(v))
				st = st[:len(st)-1]
			}
			continue
		case string:
			if len(st) > 0 && st[len(st)-1].obj && st[len(st)-1].wantKey {
				f := &st[len(st)-1]
				if f.n > 0 {
					out.WriteByte(',')
					ws()
				}
				k := v
				switch r.Intn(12) {
				case 0:
					k = strings.ToUpper(k)
				case 1:
					k = strings.ToLower(k)
				case 2:
					if len(k) > 0 {
						k = strings.ToUpper(k[:1]) + k[1:]
					}
				case 3:
					k = strings.ReplaceAll(strings.ReplaceAll(k, "k", "K"), "s", "ſ") // Kelvin sign, long s fold to k, s
				}
				out.WriteString(jsondoc.StringLit(r, k, r.Chance(1, 3)))
				ws()
				out.WriteByte(':')
				ws()
				f.wantKey = false
				continue
			}
			sep()
			out.WriteString(jsondoc.StringLit(r, v, r.Chance(1, 3)))
		case stdjson.Number:
			sep()
			s := string(v)
			if r.Chance(1, 10) && !strings.ContainsAny(s, ".eE") {
				s += core.Pick(r, []string{".0", "e0", "E+0", ".000"})
			}
			out.WriteString(s)
		case bool:
			sep()
			out.WriteString(strconv.FormatBool(v))
		case nil:
			sep()
			out.WriteString("null")
		}
		if len(st) > 0 {
			f := &st[len(st)-1]
			if f.obj {
				f.wantKey = true
			}
			f.n++
		}
	}
	return out.Bytes()
}

var intLits = []string{"0", "-0", "1", "-1", "127", "128", "-128", "-129", "255", "256", "32767", "32768", "-32768", "-32769", "65535", "65536", "2147483647", "2147483648", "-2147483648", "-2147483649",
	"4294967295", "4294967296", "9223372036854775807", "9223372036854775808", "-9223372036854775808", "-9223372036854775809", "18446744073709551615", "18446744073709551616", "12345678901234567890123456789012345678901",
	"01", "-01", "00", "1.0", "1e2", "1E2", "1.5", "-1.5", "1e-2", "0.0", "100e-2", "1e400", "-", "+1", "1.", ".5", "0x10", "1e", "1_0", "١"}
var strLits = []string{`""`, `"a"`, `"abc"`, `"a\"b"`, `"A"`, `"😀"`, `"\ud800"`, `"\udc00x"`, "\"\xff\"", `"é"`, `"\n"`, "\"a\nb\"", `"\x"`, `"\u12"`, `"1"`, `"-5"`, `"1.5"`, `"true"`, `"null"`, `" 1"`, `"01"`, `"1e2"`, `"0x1"`,
	`"2021-03-25T21:36:12Z"`, `"2021-03-25T21:36:12.5+01:00"`, `"2021-03-25"`, `"2021-03-25T1:36:12Z"`, `"0000-01-01T00:00:00Z"`, `"aGVsbG8="`, `"aGVsbG8"`, `"!!!"`, `"YQ=="`, `"k5"`, `"3/4"`, `"\u0000"`, `"fail"`}
var otherLits = []string{"null", "true", "false", "{}", "[]", "[1]", "[1,2,3]", `{"a":1}`, `{"A":1,"a":2}`, "[null]", `[[]]`, `{"":0}`, "nul", "tru", "[", "{", `{"a"}`, `[1,]`, ` `, ``}

func litFor(r *core.Rand, t reflect.Type) string {
	switch {
	case t.Kind() >= reflect.Int && t.Kind() <= reflect.Float64 || t == jtypes.TNumber:
		if r.Chance(4, 5) {
			return intLits[r.Intn(len(intLits))]
		}
	case t.Kind() == reflect.String || t == jtypes.TTime || t == jtypes.TBytes:
		if r.Chance(4, 5) {
			return strLits[r.Intn(len(strLits))]
		}
	case t.Kind() == reflect.Bool:
		if r.Chance(2, 3) {
			return core.Pick(r, []string{"true", "false", "null"})
		}
	}
	switch r.Intn(4) {
	case 0:
		return intLits[r.Intn(len(intLits))]
	case 1:
		return strLits[r.Intn(len(strLits))]
	case 2:
		return otherLits[r.Intn(len(otherLits))]
	}
	return jsondoc.Valid(r, jsondoc.Opts{MaxDepth: 2, MaxElems: 3, MaxString: 6})
}

// DocFor is docFor for other monitors.
func DocFor(r *core.Rand, t reflect.Type) string { return docFor(r, t, 0) }

// docFor builds a type-directed document whose leaves come from hostile literal pools.
func docFor(r *core.Rand, t reflect.Type, depth int) string {
	if depth > 5 || r.Chance(1, 12) {
		return litFor(r, t)
	}
	if r.Chance(1, 15) {
		return "null"
	}
	switch t.Kind() {
	case reflect.Pointer:
		return docFor(r, t.Elem(), depth+1)
	case reflect.Struct:
		if t == jtypes.TTime || t.NumField() == 0 || r.Chance(1, 10) {
			return litFor(r, t)
		}
		var parts []string
		n := t.NumField()
		for i := 0; i < n; i++ {
			f := t.Field(i)
			if r.Chance(1, 4) && n > 2 {
				continue
			}
			ks := fieldKeys(f)
			k := ks[r.Intn(len(ks))]
			switch r.Intn(10) {
			case 0:
				k = strings.ToUpper(k)
			case 1:
				k = strings.ToLower(k)
			case 2:
				k = k + "x"
			}
			ft := f.Type
			if strings.Contains(f.Tag.Get("json"), ",string") && r.Chance(3, 4) {
				parts = append(parts, strconv.Quote(k)+":"+strconv.Quote(docFor(r, ft, depth+1)))
				continue
			}
			parts = append(parts, strconv.Quote(k)+":"+docFor(r, ft, depth+1))
		}
		if r.Chance(1, 5) {
			parts = append(parts, `"unknown_key":`+litFor(r, t))
		}
		if r.Chance(1, 6) && len(parts) > 0 {
			parts = append(parts, parts[r.Intn(len(parts))]) // duplicate member
		}
		r2 := r
		for i := len(parts) - 1; i > 0; i-- {
			if r2.Chance(1, 3) {
				j := r2.Intn(i + 1)
				parts[i], parts[j] = parts[j], parts[i]
			}
		}
		return "{" + strings.Join(parts, ",") + "}"
	case reflect.Slice, reflect.Array:
		if t.Elem().Kind() == reflect.Uint8 && r.Chance(2, 3) {
			return litFor(r, jtypes.TBytes)
		}
		n := r.Len(6)
		if t.Kind() == reflect.Array {
			n = t.Len() + r.Range(-1, 2)
			if n < 0 {
				n = 0
			}
		}
		var parts []string
		for i := 0; i < n; i++ {
			parts = append(parts, docFor(r, t.Elem(), depth+1))
		}
		return "[" + strings.Join(parts, ",") + "]"
	case reflect.Map:
		var parts []string
		for i := r.Len(4); i > 0; i-- {
			var k string
			switch t.Key().Kind() {
			case reflect.String:
				k = r.ASCIIString(0, 4)
			default:
				k = strings.Trim(core.Pick(r, append(intLits[:30], "k5", "1/2", "x")), `"`)
			}
			parts = append(parts, strconv.Quote(k)+":"+docFor(r, t.Elem(), depth+1))
		}
		return "{" + strings.Join(parts, ",") + "}"
	case reflect.Interface:
		return jsondoc.Valid(r, jsondoc.Opts{MaxDepth: 2, MaxElems: 3, MaxString: 6, Escapes: true})
	}
	return litFor(r, t)
}

func pickType(c *core.Case) reflect.Type {
	switch c.Index % 5 {
	case 0:
		t := jtypes.DecodeLibrary[c.Rng.Intn(len(jtypes.DecodeLibrary))]
		switch c.Rng.Intn(5) {
		case 0:
			return reflect.SliceOf(t)
		case 1:
			return reflect.MapOf(reflect.TypeOf(""), t)
		case 2:
			return reflect.PointerTo(t)
		}
		return t
	default:
		cfg := jtypes.DefaultCfg
		if c.Index%7 == 0 {
			cfg.MaxFields = 12
		}
		return jtypes.New(c.Rng.Fork(1), cfg).Type(0)
	}
}

func runRoundTrip(c *core.Case) {
	t := pickType(c)
	c.Journal("respelled")
	f := &jtypes.Filler{R: c.Rng.Fork(2), NoNaN: true, RawValid: true, MaxLen: 8}
	v := f.NewValue(t)
	doc, err := stdjson.Marshal(v.Interface())
	if err != nil {
		c.Count("generator.std-marshal-error", 1)
		return
	}
	for k := 0; k < 4; k++ {
		d := doc
		if k > 0 {
			d = respell(c.Rng, doc)
		}
		fam := "respelled"
		if k == 3 {
			d = []byte(jsondoc.Mutate(c.Rng, string(d)))
			fam = "mutated"
		}
		p := prior{}
		if k%2 == 1 {
			p = prior{true, c.Rng.Uint64()}
		}
		check(c, fam, d, t, p, k == 0 && c.Index%6 == 0)
		c.Distinct(core.Mix(core.HashString(t.String()), core.HashBytes(d)), len(d) > 2)
	}
	c.Sample(len(doc)/64, map[string]any{"sub": "respelled", "type": jtypes.TypeString(t), "doc": tr(doc)})
}

func runHostile(c *core.Case) {
	t := pickType(c)
	c.Journal("type-directed")
	for k := 0; k < 6; k++ {
		d := docFor(c.Rng, t, 0)
		if k == 5 {
			d = jsondoc.Mutate(c.Rng, d)
		}
		p := prior{}
		if c.Rng.Chance(1, 3) {
			p = prior{true, c.Rng.Uint64()}
		}
		check(c, "type-directed", []byte(d), t, p, false)
		c.Distinct(core.Mix(core.HashString(t.String()), core.HashString(d)), len(d) > 2)
		if k == 0 {
			c.Sample(0, map[string]any{"sub": "type-directed", "type": jtypes.TypeString(t), "doc": tr([]byte(d))})
		}
	}
}

// scalar matrix: every scalar kind x every literal of the pools, through every api
var scalarTargets = []reflect.Type{
	reflect.TypeOf(int8(0)), reflect.TypeOf(int16(0)), reflect.TypeOf(int32(0)), reflect.TypeOf(int64(0)), reflect.TypeOf(int(0)),
	reflect.TypeOf(uint8(0)), reflect.TypeOf(uint16(0)), reflect.TypeOf(uint32(0)), reflect.TypeOf(uint64(0)), reflect.TypeOf(uint(0)), reflect.TypeOf(uintptr(0)),
	reflect.TypeOf(float32(0)), reflect.TypeOf(float64(0)), reflect.TypeOf(""), reflect.TypeOf(false), jtypes.TNumber, jtypes.TRaw, jtypes.TTime, jtypes.TBytes, jtypes.TAny,
	reflect.TypeOf(jtypes.NInt8(0)), reflect.TypeOf(jtypes.SStr("")), reflect.TypeOf(jtypes.KInt(0)), reflect.TypeOf(jtypes.UP{}), reflect.TypeOf(jtypes.UT{}), reflect.TypeOf(jtypes.MU{}), reflect.TypeOf(jtypes.NBytes(nil)), reflect.TypeOf(jtypes.NByteSlice(nil)),
	reflect.TypeOf([]int(nil)), reflect.TypeOf([2]int{}), reflect.TypeOf([0]int{}), reflect.TypeOf([1]string{}), reflect.TypeOf(map[string]int(nil)), reflect.TypeOf(map[int]string(nil)), reflect.TypeOf(map[uint8]bool(nil)), reflect.TypeOf(map[jtypes.KeyT]int(nil)),
	reflect.TypeOf(map[jtypes.KInt]int(nil)), reflect.TypeOf(map[jtypes.SStr]int(nil)), reflect.TypeOf(map[string]any(nil)), reflect.TypeOf(map[string]string(nil)), reflect.TypeOf(map[string][]string(nil)), reflect.TypeOf(map[string]bool(nil)), reflect.TypeOf(map[string]stdjson.RawMessage(nil)),
	reflect.TypeOf(struct{}{}), reflect.TypeOf(jtypes.StrOpt{}), reflect.TypeOf(jtypes.Emb{}), reflect.TypeOf(jtypes.WEmbPtr{}), reflect.TypeOf(jtypes.WUnexpPtr{}), reflect.TypeOf(jtypes.WAmbig{}), reflect.TypeOf((*int)(nil)), reflect.TypeOf((**string)(nil)), reflect.TypeOf([]*int(nil)), reflect.TypeOf([]any(nil)),
}

var allLits = append(append(append([]string{}, intLits...), strLits...), otherLits...)

func wrapDoc(kind int, lit string) string {
	switch kind {
	case 1:
		return "[" + lit + "]"
	case 2:
		return `{"k":` + lit + `}`
	case 3:
		return " " + lit + "\n"
	case 4:
		return `{"1":` + lit + `,"k5":` + lit + `,"3/4":` + lit + `}`
	case 5:
		return "[" + lit + "," + lit + "]"
	}
	return lit
}

func runMatrix(c *core.Case) {
	t := scalarTargets[c.Index%len(scalarTargets)]
	wrap := (c.Index / len(scalarTargets)) % 6
	c.Journal("literal-matrix")
	for _, lit := range allLits {
		d := wrapDoc(wrap, lit)
		p := prior{}
		if (len(lit)+c.Index)%3 == 0 {
			p = prior{true, uint64(c.Index)}
		}
		check(c, "literal-matrix", []byte(d), t, p, wrap == 0)
	}
	c.Count("matrix.docs", len(allLits))
	c.Distinct(core.Mix(core.HashString(t.String()), uint64(wrap)), true)
	c.Sample(0, map[string]any{"sub": "literal-matrix", "type": t.String(), "wrapper": wrapDoc(wrap, "<lit>"), "literals": len(allLits)})
}

// key matrix: exact, case-folded, non-ASCII fold, duplicate, escaped, long, NUL-padded keys on 1/32/33/40-field structs
func keyStruct(n int, salt string) reflect.Type {
	var fs []reflect.StructField
	for i := 0; i < n; i++ {
		name := fmt.Sprintf("Field%c%d", 'A'+i%26, i)
		tag := ""
		switch i % 7 {
		case 1:
			tag = fmt.Sprintf(`json:"key%d"`, i)
		case 2:
			tag = fmt.Sprintf(`json:"Ks%d"`, i)
		case 3:
			tag = fmt.Sprintf(`json:"%s"`, strings.Repeat("long", 5)+strconv.Itoa(i))
		case 4:
			tag = fmt.Sprintf(`json:"k-%d,omitempty"`, i)
		}
		fs = append(fs, reflect.StructField{Name: name, Type: reflect.TypeOf(0), Tag: reflect.StructTag(tag)})
	}
	return reflect.StructOf(fs)
}

func runKeys(c *core.Case) {
	n := []int{1, 2, 8, 31, 32, 33, 40}[c.Index%7]
	t := keyStruct(n, "")
	c.Journal("key-matrix")
	r := c.Rng
	for k := 0; k < 24; k++ {
		f := t.Field(r.Intn(n))
		key := fieldKeys(f)[0]
		var lit string
		switch r.Intn(12) {
		case 0:
			lit = strconv.Quote(key)
		case 1:
			lit = strconv.Quote(strings.ToUpper(key))
		case 2:
			lit = strconv.Quote(strings.ToLower(key))
		case 3:
			lit = strconv.Quote(strings.ReplaceAll(strings.ReplaceAll(key, "k", "K"), "s", "ſ"))
		case 4:
			lit = strconv.Quote(strings.ReplaceAll(strings.ReplaceAll(key, "K", "K"), "S", "ſ"))
		case 5:
			lit = jsondoc.StringLit(r, key, true)
		case 6:
			lit = `"` + key + `\u0000"`
		case 7:
			lit = `"` + key + strings.Repeat("x", r.Range(1, 70)) + `"`
		case 8:
			lit = `"` + key[:len(key)-1] + `"`
		case 9:
			lit = `"` + key + ` "`
		case 10:
			lit = strconv.Quote(strings.Title(strings.ToLower(key)))
		default:
			lit = `"k` + key[1:] + `"`
		}
		other := fieldKeys(t.Field(r.Intn(n)))[0]
		doc := fmt.Sprintf(`{%s:%d,%q:%d,%s:%d}`, lit, 1+r.Intn(9), other, 10+r.Intn(9), lit, 20+r.Intn(9))
		if r.Bool() {
			doc = fmt.Sprintf(`{%s:%d}`, lit, 1+r.Intn(9))
		}
		p := prior{}
		if r.Chance(1, 4) {
			p = prior{true, r.Uint64()}
		}
		check(c, "key-matrix", []byte(doc), t, p, true)
		c.Distinct(core.HashString(doc), true)
	}
	c.Sample(n, map[string]any{"sub": "key-matrix", "fields": n})
}

// histories: 1-3 earlier decodes into the same variable
func runHistory(c *core.Case) {
	t := pickType(c)
	c.Journal("history")
	r := c.Rng
	f := &jtypes.Filler{R: r.Fork(2), NoNaN: true, RawValid: true, MaxLen: 6}
	var docs [][]byte
	for i := r.Range(2, 4); i > 0; i-- {
		if r.Chance(2, 3) {
			if d, err := stdjson.Marshal(f.NewValue(t).Interface()); err == nil {
				docs = append(docs, respell(r, d))
				continue
			}
		}
		docs = append(docs, []byte(docFor(r, t, 0)))
	}
	tp, ts := reflect.New(t), reflect.New(t)
	for i, d := range docs {
		var ep, es error
		sig, stk := core.Guard(func() { ep = json.Unmarshal(append([]byte(nil), d...), tp.Interface()) })
		if sig2, _ := core.Guard(func() { es = stdjson.Unmarshal(d, ts.Interface()) }); sig2 != "" {
			return
		}
		how := ""
		switch {
		case sig != "":
			how = sig
		case (ep == nil) != (es == nil):
			how = fmt.Sprintf("pkg=%s,std=%s", okStr(ep), okStr(es))
		case ep == nil && !deepEqual(tp.Elem(), ts.Elem()):
			how = "value-diff"
		}
		if how != "" {
			if h2, _, _ := compare(apis[0], d, t, prior{}); h2 != "" {
				check(c, "histories", d, t, prior{}, false)
				return
			}
			var hs []string
			for _, x := range docs[:i+1] {
				hs = append(hs, tr(x))
			}
			c.Violation(fmt.Sprintf("history|%s|step%d", typeClass(t), i), how, fmt.Sprintf("decode #%d of %q into the same %s variable: pkg err=%v %s | std err=%v %s %s", i, hs, t, ep, show(tp.Elem()), es, show(ts.Elem()), stk),
				map[string]any{"type": jtypes.TypeString(t), "docs": hs})
			return
		}
		if ep != nil {
			return // after an error the contents are unspecified
		}
	}
	c.Count("histories", 1)
	c.Distinct(core.Mix(core.HashString(t.String()), core.HashBytes(docs[0])), true)
}

func okStr(e error) string {
	if e == nil {
		return "ok"
	}
	return "err"
}

// Unescape / AppendUnescape vs unmarshalling into a string
func runUnescape(c *core.Case) {
	c.Journal("unescape")
	for k := 0; k < 32; k++ {
		lit := jsondoc.StringLit(c.Rng, c.Rng.String(40), true)
		if c.Rng.Chance(1, 4) {
			lit = strLits[c.Rng.Intn(len(strLits))]
		}
		var want string
		if stdjson.Unmarshal([]byte(lit), &want) != nil {
			continue
		}
		if got := json.Unescape([]byte(lit)); string(got) != want {
			c.Violation("Unescape", "value-diff", fmt.Sprintf("Unescape(%s) = %q, encoding/json decodes %q", lit, got, want), map[string]any{"literal": lit})
		}
		if got := json.AppendUnescape([]byte("p"), []byte(lit), 0); string(got) != "p"+want {
			c.Violation("AppendUnescape", "value-diff", fmt.Sprintf("AppendUnescape(%s) = %q, want %q", lit, got, "p"+want), map[string]any{"literal": lit})
		}
		c.Distinct(core.HashString(lit), len(lit) > 2)
	}
}

// witnessNumberString: encoding/json stores any text starting with a digit or '-' into a
// json.Number field tagged ',string'; the package validates the number.
func witnessNumberString(c *core.Case) {
	c.Journal("number,string")
	type T struct {
		N json.Number `json:",string"`
	}
	var a, b T
	e1 := json.Unmarshal([]byte(`{"N":"1e"}`), &a)
	e2 := stdjson.Unmarshal([]byte(`{"N":"1e"}`), &b)
	if (e1 == nil) != (e2 == nil) {
		c.Violation("Unmarshal|struct{json.Number,string}<-object|prior=zero", "pkg=err,std=ok", fmt.Sprintf("Unmarshal({\"N\":\"1e\"}) into struct{N json.Number `json:\",string\"`}: pkg err=%v, std err=%v value=%q", e1, e2, b.N), nil)
	}
	// the same through a Decoder whose stream goes on with garbage after the first value
	const stream = `[{"N":"1_0"}]"}]`
	var da, db [1]*T
	e1 = json.NewDecoder(strings.NewReader(stream)).Decode(&da)
	e2 = stdjson.NewDecoder(strings.NewReader(stream)).Decode(&db)
	if (e1 == nil) != (e2 == nil) {
		c.Violation("Decoder|[1]*struct{json.Number,string}<-invalid-json|prior=zero", "pkg=err,std=ok", fmt.Sprintf("Decoder(%s) into [1]*struct{N json.Number `json:\",string\"`}: pkg err=%v, std err=%v", stream, e1, e2), nil)
	}
}

// ptrptr-null: null decoded into a multi-level pointer that already points somewhere.
func runPtrPtr(c *core.Case) {
	c.Journal("ptr-to-ptr<-null")
	mk := func(state int) **string {
		s := "x"
		ps := &s
		switch state {
		case 0:
			return nil
		case 1:
			var n *string
			return &n
		}
		return &ps
	}
	desc := func(pp **string) string {
		switch {
		case pp == nil:
			return "nil"
		case *pp == nil:
			return "&nil"
		}
		return "&&" + **pp
	}
	type S struct{ O **string }
	for st := 0; st < 3; st++ {
		a, b := mk(st), mk(st)
		e1, e2 := json.Unmarshal([]byte("null"), &a), stdjson.Unmarshal([]byte("null"), &b)
		x, y := S{mk(st)}, S{mk(st)}
		e3, e4 := json.Unmarshal([]byte(`{"O":null}`), &x), stdjson.Unmarshal([]byte(`{"O":null}`), &y)
		u, v := []**string{mk(st)}, []**string{mk(st)}
		json.Unmarshal([]byte(`[null]`), &u)
		stdjson.Unmarshal([]byte(`[null]`), &v)
		if (e1 == nil) != (e2 == nil) || (e3 == nil) != (e4 == nil) || desc(a) != desc(b) || desc(x.O) != desc(y.O) || desc(u[0]) != desc(v[0]) {
			c.Violation("ptr-to-ptr<-null", "value-diff", fmt.Sprintf("null into **string holding %s: top-level pkg=%s std=%s; struct field pkg=%s std=%s; slice element pkg=%s std=%s",
				desc(mk(st)), desc(a), desc(b), desc(x.O), desc(y.O), desc(u[0]), desc(v[0])), map[string]any{"prior": desc(mk(st))})
			return
		}
	}
	c.Distinct(1, true)
}

func init() {
	core.Register(&core.Monitor{
		Prop:      "C02",
		Witnesses: map[string]func(*core.Case){"ptrptr-null": runPtrPtr, "number-string-garbage": witnessNumberString},
		Rule:      "Each case decodes a document into two identically prepared targets (zero, or pre-filled from the same seed) with encoding/json and with the package through Unmarshal, Parse(b,x,0) and Decoder.Decode x {UseNumber} x {DisallowUnknownFields}; both must fail together and, when both succeed, be reflect.DeepEqual; nothing is compared after an error. Families: respelled (encoding/json's encoding of a random value of the type re-emitted token by token with whitespace, escapes incl. surrogate pairs, key case changes and Kelvin/long-s folds, number re-spellings; plus byte mutations), type-directed (documents following the target type with leaves from hostile literal pools: every integer boundary +-1, beyond 64 bits, -0, leading zeros, fractions/exponents, quoted numbers, wrong kinds, null, short/long arrays, unknown/duplicate/case-variant keys), literal-matrix (57 target types x 6 wrappers x ~110 literals), key-matrix (exact / folded / escaped / NUL-padded / long / truncated keys on structs of 1..40 fields: keyset and map lookup paths), histories (2-4 successive decodes into one variable), unescape. Types: run-time generated (reflect.StructOf & co.) and the hand-written library. A disagreement is localised to the innermost (type, sub-document) that still disagrees; distinct = (type, document).",
		Trusted:   []string{"encoding/json (go1.23.5) Unmarshal / Decoder as the reference for accept/reject and decoded values", "reflect.DeepEqual as the equality of the statement"},
		Subs: []core.Sub{
			{Name: "respelled", N: core.Const(80000, 1500000), Run: runRoundTrip},
			{Name: "type-directed", N: core.Const(80000, 1500000), Run: runHostile},
			{Name: "literal-matrix", N: func(core.Tier) int { return len(scalarTargets) * 6 }, Run: runMatrix},
			{Name: "key-matrix", N: core.Const(7000, 60000), Run: runKeys},
			{Name: "histories", N: core.Const(40000, 600000), Run: runHistory},
			{Name: "unescape", N: core.Const(500, 10000), Run: runUnescape},
			{Name: "ptrptr-null", N: core.Const(1, 1), Run: runPtrPtr},
		},
	})
}
