package main

import (
	"fmt"

	"github.com/segmentio/encoding/proto"
)

type T struct {
	M map[string]int32 `protobuf:"bytes,1,rep,name=m"`
	N map[int32]bool   `protobuf:"bytes,2,rep,name=n"`
}

func main() {
	b, err := proto.Marshal(&T{M: map[string]int32{"": 0}, N: map[int32]bool{0: false, 1: false}})
	fmt.Printf("%x %v\n", b, err)
	var t T
	err = proto.Unmarshal(b, &t)
	fmt.Printf("%+v %v\n", t, err)
}
