package main

import (
	"fmt"

	"github.com/segmentio/encoding/proto"
	"verifharness/gen/ptypes"
)

type T struct {
	F1 bool
	F2 ptypes.MsgT
}
type P struct {
	F1 bool
	F2 *ptypes.MsgT
}
type L struct {
	F1 []ptypes.MsgT
}

func main() {
	b, err := proto.Marshal(T{F2: ptypes.MsgT{B: []byte{0x30}}})
	fmt.Printf("by value:   % x err=%v size=%d\n", b, err, proto.Size(T{F2: ptypes.MsgT{B: []byte{0x30}}}))
	b, err = proto.Marshal(P{F2: &ptypes.MsgT{B: []byte{0x30}}})
	fmt.Printf("by pointer: % x err=%v\n", b, err)
	b, err = proto.Marshal(L{F1: []ptypes.MsgT{{B: []byte{0x30}}}})
	fmt.Printf("repeated:   % x err=%v\n", b, err)
}
