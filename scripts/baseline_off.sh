#!/bin/bash
# Runs the repository's pinned baseline suite (same loop as BASELINE.json's cmd) with the verif guard OFF
# (no -tags verif): go test -json output on stdout. The exit status is that of the root module's tests;
# proto/fixtures holds generated code without tests (its package does not compile with the pinned go
# directive under this toolchain, exactly as in the recorded baseline), so its status is not counted.
export GOFLAGS=-mod=mod GOPROXY=off GOSUMDB=off GOTOOLCHAIN=local
rc=0
(cd /repo && go test -json -vet=off -count=1 -timeout 25m ./...) || rc=1
(cd /repo/proto/fixtures && go test -json -vet=off -count=1 -timeout 25m ./...) || true
exit $rc
