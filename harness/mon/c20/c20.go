// Package c20: ascii predicates equal their byte-wise definitions at every
// length, alignment and deviation position; default and purego builds agree.
package c20

import (
	stdjson "encoding/json"
	"fmt"
	"unsafe"

	"github.com/segmentio/encoding/ascii"
	"github.com/segmentio/encoding/json"
	"verifharness/core"
)

func refValid(b []byte) bool {
	for _, c := range b {
		if c >= 0x80 {
			return false
		}
	}
	return true
}

func refValidPrint(b []byte) bool {
	for _, c := range b {
		if c < 0x20 || c > 0x7e {
			return false
		}
	}
	return true
}

func fold(c byte) byte {
	if c >= 'A' && c <= 'Z' {
		return c | 0x20
	}
	return c
}

func refEqualFold(a, b []byte) bool {
	if len(a) != len(b) {
		return false
	}
	for i := range a {
		if fold(a[i]) != fold(b[i]) {
			return false
		}
	}
	return true
}

func refHasPrefixFold(s, p []byte) bool { return len(s) >= len(p) && refEqualFold(s[:len(p)], p) }
func refHasSuffixFold(s, p []byte) bool {
	return len(s) >= len(p) && refEqualFold(s[len(s)-len(p):], p)
}

// aligned returns a buffer whose first byte is 4096-aligned.
func aligned(n int) []byte {
	raw := make([]byte, n+8192)
	off := int(4096 - uintptr(unsafe.Pointer(&raw[0]))%4096)
	return raw[off : off+n]
}

func bstr(b []byte) string { return unsafe.String(unsafe.SliceData(b), len(b)) }

type dims struct{ maxLen, maxAlign int }

func validDims(t core.Tier) dims {
	if t == core.Thorough {
		return dims{320, 64}
	}
	return dims{160, 16}
}

var deviants = []byte{0x00, 0x1f, 0x20, 0x7e, 0x7f, 0x80, 0xff}

func runValid(c *core.Case) {
	d := validDims(c.Tier)
	L := c.Index / d.maxAlign
	A := c.Index % d.maxAlign
	c.Journal(fmt.Sprintf("valid-L%d", L))
	page := aligned(8192)
	// the bytes around the slice have the opposite classification of the
	// fill, so an over-read that changes the answer is caught.
	for i := range page {
		page[i] = 0xff
	}
	s := page[64+A : 64+A+L : 64+A+L]
	fills := []byte{'a', ' ', '~', 'Z'}
	var h uint64 = 14695981039346656037
	n := 0
	check := func(what string, got, want bool, p int, v byte) {
		n++
		h = (h ^ uint64(b2i(got))) * 1099511628211
		if got != want {
			c.Violation("ascii."+what, fmt.Sprintf("got=%v,want=%v", got, want),
				fmt.Sprintf("%s on len=%d align=%d deviating byte %#x at %d", what, L, A, v, p),
				map[string]any{"len": L, "align": A, "pos": p, "byte": v, "func": what})
		}
	}
	evalAll := func(p int, v byte) {
		wv, wp := refValid(s), refValidPrint(s)
		check("Valid", ascii.Valid(s), wv, p, v)
		check("ValidString", ascii.ValidString(bstr(s)), wv, p, v)
		check("ValidPrint", ascii.ValidPrint(s), wp, p, v)
		check("ValidPrintString", ascii.ValidPrintString(bstr(s)), wp, p, v)
	}
	fill := fills[(L+A)%len(fills)]
	for i := range s {
		s[i] = fill
	}
	evalAll(-1, fill)
	vals := deviants
	if L <= 80 {
		vals = allBytes
	}
	for p := 0; p < L; p++ {
		for _, v := range vals {
			s[p] = v
			evalAll(p, v)
		}
		s[p] = fill
	}
	// two deviations: one early, one late
	if L >= 2 {
		s[0], s[L-1] = 0x80, 0x1f
		evalAll(0, 0x80)
		s[0], s[L-1] = fill, fill
	}
	for i := 0; i < 64+A; i++ {
		if page[i] != 0xff {
			c.Violation("ascii.valid", "input-modified", "bytes before the slice changed", nil)
		}
	}
	// the same slice with its capacity reaching to the end of the buffer (what a window into a
	// larger document looks like), the bytes behind and before it taking each interesting value:
	// the answer depends on s[:len(s)] alone
	wide := page[64+A : 64+A+L]
	for _, sv := range []byte{0xff, 0x80, 0x7f, 0x5f, 0x1f, 0x00, 'a'} {
		for i := 0; i < 64+A; i++ {
			page[i] = sv
		}
		for i := 64 + A + L; i < 64+A+L+64; i++ {
			page[i] = sv
		}
		evalWide := func(p int, v byte) {
			wv, wp := refValid(s), refValidPrint(s)
			check("Valid|wide-cap", ascii.Valid(wide), wv, p, v)
			check("ValidPrint|wide-cap", ascii.ValidPrint(wide), wp, p, v)
			check("ValidString|neighbours", ascii.ValidString(bstr(s)), wv, p, v)
			check("ValidPrintString|neighbours", ascii.ValidPrintString(bstr(s)), wp, p, v)
		}
		evalWide(-1, sv)
		if L > 0 {
			for _, v := range deviants {
				for _, p := range []int{0, L / 2, L - 1} {
					s[p] = v
					evalWide(p, v)
					s[p] = fill
				}
			}
		}
	}
	c.Count("evaluations.predicate", n)
	c.Distinct(core.Mix(uint64(L), uint64(A)), L > 0)
	c.Digest(fmt.Sprintf("L%d.A%d", L, A), h)
	if L == d.maxLen && A == d.maxAlign-1 {
		c.Sample(L, map[string]any{"sub": "valid-sweep", "len": L, "align": A, "deviation_values": len(vals), "evaluations": n})
	}
	c.Sample(0, map[string]any{"sub": "valid-sweep", "len": L, "align": A, "evaluations": n})
}

var allBytes = func() []byte {
	b := make([]byte, 256)
	for i := range b {
		b[i] = byte(i)
	}
	return b
}()

func b2i(b bool) int {
	if b {
		return 1
	}
	return 0
}

// fold sweep: case = (length, position); all ASCII pairs or the letter-focused subset.
type foldCase struct {
	L, P int
	full bool
}

func foldCases(t core.Tier) []foldCase {
	var cs []foldCase
	fullMax, smallMax := 32, 160
	if t == core.Thorough {
		fullMax, smallMax = 80, 320
	}
	for L := 1; L <= smallMax; L++ {
		for p := 0; p < L; p++ {
			if L <= fullMax {
				cs = append(cs, foldCase{L, p, true})
			} else if L <= 80 || p < 2 || p >= L-2 || p%16 == 0 || p%16 == 15 || p == L/2 {
				cs = append(cs, foldCase{L, p, false})
			}
		}
	}
	return cs
}

var foldQ, foldT = foldCases(core.Quick), foldCases(core.Thorough)

func runFold(c *core.Case) {
	cs := foldQ
	if c.Tier == core.Thorough {
		cs = foldT
	}
	fc := cs[c.Index]
	c.Journal(fmt.Sprintf("fold-L%d", fc.L))
	A := (fc.L*7 + fc.P) % 16
	pa, pb := aligned(4096), aligned(4096)
	for i := range pa {
		pa[i], pb[i] = 'x', 'Y' // surroundings differ even after folding
	}
	a := pa[32+A : 32+A+fc.L : 32+A+fc.L]
	b := pb[48+A : 48+A+fc.L : 48+A+fc.L]
	base := "abcXYZ09_~@[`{mQ"
	for i := 0; i < fc.L; i++ {
		ch := base[(i+fc.L)%len(base)]
		a[i] = ch
		if i%3 == 1 {
			b[i] = fold(ch) ^ 0x20&^(b2m(!isLetter(ch))) // flip case of letters
		} else {
			b[i] = ch
		}
	}
	if !refEqualFold(a, b) {
		panic("harness: base strings are not fold-equal")
	}
	var h uint64 = 14695981039346656037
	n := 0
	check := func(what string, got, want bool, x, y byte) {
		n++
		h = (h ^ uint64(b2i(got))) * 1099511628211
		if got != want {
			c.Violation("ascii."+what, fmt.Sprintf("got=%v,want=%v", got, want),
				fmt.Sprintf("%s len=%d pos=%d bytes %#x vs %#x", what, fc.L, fc.P, x, y),
				map[string]any{"len": fc.L, "pos": fc.P, "x": x, "y": y, "func": what})
		}
	}
	sa, sb := a[fc.P], b[fc.P]
	pair := func(x, y byte) {
		a[fc.P], b[fc.P] = x, y
		want := fold(x) == fold(y)
		check("EqualFold", ascii.EqualFold(a, b), want, x, y)
		check("EqualFoldString", ascii.EqualFoldString(bstr(a), bstr(b)), want, x, y)
		check("HasPrefixFold", ascii.HasPrefixFold(a, b), want, x, y)
		check("HasSuffixFoldString", ascii.HasSuffixFoldString(bstr(a), bstr(b)), want, x, y)
	}
	if fc.full {
		for x := 0; x < 128; x++ {
			for y := 0; y < 128; y++ {
				pair(byte(x), byte(y))
			}
		}
	} else {
		for x := 0; x < 128; x++ {
			for _, y := range []byte{byte(x), byte(x) ^ 0x20, byte(x+1) & 0x7f, byte(x-1) & 0x7f, byte(x) | 0x20, byte(x) &^ 0x20} {
				pair(byte(x), y)
			}
		}
	}
	a[fc.P], b[fc.P] = sa, sb
	// length relations -1 / 0 / +1 with the deviation inside or outside the compared window
	for _, x := range []byte{'a', 'A', 'b', '[', '{', '@', '`'} {
		b[fc.P] = x
		for dl := -1; dl <= 1; dl++ {
			pl := fc.L + dl
			if pl < 0 {
				continue
			}
			// prefix taken from pb (may extend one byte past b: the surrounding 'Y')
			pre := pb[48+A : 48+A+pl]
			check("HasPrefixFold.len", ascii.HasPrefixFold(a, pre), refHasPrefixFold(a, pre), x, byte(dl))
			check("HasPrefixFoldString.len", ascii.HasPrefixFoldString(bstr(a), bstr(pre)), refHasPrefixFold(a, pre), x, byte(dl))
			if pl <= fc.L {
				suf := b[fc.L-pl:]
				check("HasSuffixFold.len", ascii.HasSuffixFold(a, suf), refHasSuffixFold(a, suf), x, byte(dl))
				check("HasSuffixFoldString.len", ascii.HasSuffixFoldString(bstr(a), bstr(suf)), refHasSuffixFold(a, suf), x, byte(dl))
				check("EqualFold.len", ascii.EqualFold(a, suf), refEqualFold(a, suf), x, byte(dl))
			} else {
				suf := pb[48+A-1 : 48+A+fc.L]
				check("HasSuffixFold.len", ascii.HasSuffixFold(a, suf), refHasSuffixFold(a, suf), x, byte(dl))
				check("EqualFoldString.len", ascii.EqualFoldString(bstr(a), bstr(suf)), refEqualFold(a, suf), x, byte(dl))
			}
		}
		// empty prefix / suffix
		check("HasPrefixFold.empty", ascii.HasPrefixFold(a, nil), true, x, 0)
		check("HasSuffixFold.empty", ascii.HasSuffixFold(a, b[:0]), true, x, 0)
		// arguments that are views of one buffer: same start (prefix) or same end (suffix),
		// either one the longer; the answer depends on the bytes only
		for _, d := range []int{0, 1, 2, fc.L / 2, fc.L} {
			if d > fc.L {
				continue
			}
			short, long := a[:fc.L-d], a
			check("HasPrefixFold.alias", ascii.HasPrefixFold(short, long), refHasPrefixFold(short, long), x, byte(d))
			check("HasPrefixFold.alias", ascii.HasPrefixFold(long, short), refHasPrefixFold(long, short), x, byte(d))
			check("HasPrefixFoldString.alias", ascii.HasPrefixFoldString(bstr(short), bstr(long)), refHasPrefixFold(short, long), x, byte(d))
			check("EqualFold.alias", ascii.EqualFold(short, long), refEqualFold(short, long), x, byte(d))
			tail := a[d:]
			check("HasSuffixFold.alias", ascii.HasSuffixFold(tail, long), refHasSuffixFold(tail, long), x, byte(d))
			check("HasSuffixFold.alias", ascii.HasSuffixFold(long, tail), refHasSuffixFold(long, tail), x, byte(d))
			check("HasSuffixFoldString.alias", ascii.HasSuffixFoldString(bstr(tail), bstr(long)), refHasSuffixFold(tail, long), x, byte(d))
			check("EqualFoldString.alias", ascii.EqualFoldString(bstr(tail), bstr(long)), refEqualFold(tail, long), x, byte(d))
		}
	}
	b[fc.P] = sb
	c.Count("evaluations.fold", n)
	c.Distinct(core.Mix(uint64(fc.L)<<1|uint64(b2i(fc.full)), uint64(fc.P)), true)
	c.Digest(fmt.Sprintf("L%d.P%d", fc.L, fc.P), h)
	c.Sample(fc.L*b2i(fc.full), map[string]any{"sub": "fold-sweep", "len": fc.L, "pos": fc.P, "all_128x128_pairs": fc.full, "evaluations": n})
}

func isLetter(c byte) bool { return (c|0x20) >= 'a' && (c|0x20) <= 'z' }
func b2m(b bool) byte {
	if b {
		return 0xff
	}
	return 0
}

// first-call: the first fold / validity call a fresh process makes is case i's function (the
// sub runs first and the shards start at different cases), on inputs with and without a
// deviation: the answer may not depend on what was called before.
func runFirstCall(c *core.Case) {
	c.Journal("first-call")
	n := 0
	check := func(what string, got, want bool, in string) {
		n++
		if got != want {
			c.Violation("ascii."+what+"|first-call", fmt.Sprintf("got=%v,want=%v", got, want), fmt.Sprintf("%s as one of the first calls of the process, on %q", what, in), map[string]any{"func": what, "input": in})
		}
	}
	type pair struct{ a, b string }
	pairs := []pair{{"Hello, World", "hello, wOrld"}, {"Hello, World", "hellO, wOrlt"}, {"abc", "abd"}, {"content-type: text", "Content-Type"}, {"content-type: text", "Content-Typo"}, {"a much longer input, beyond sixteen bytes", "A MUCH LONGER INPUT, beyond sixteen bytez"}, {"x[", "x{"}, {"@", "`"}, {"k", "K"}}
	fns := []func(p pair){
		func(p pair) {
			check("HasPrefixFold", ascii.HasPrefixFold([]byte(p.a), []byte(p.b)), refHasPrefixFold([]byte(p.a), []byte(p.b)), p.a+"|"+p.b)
		},
		func(p pair) {
			check("HasPrefixFoldString", ascii.HasPrefixFoldString(p.a, p.b), refHasPrefixFold([]byte(p.a), []byte(p.b)), p.a+"|"+p.b)
		},
		func(p pair) {
			check("HasSuffixFold", ascii.HasSuffixFold([]byte(p.a), []byte(p.b)), refHasSuffixFold([]byte(p.a), []byte(p.b)), p.a+"|"+p.b)
		},
		func(p pair) {
			check("HasSuffixFoldString", ascii.HasSuffixFoldString(p.a, p.b), refHasSuffixFold([]byte(p.a), []byte(p.b)), p.a+"|"+p.b)
		},
		func(p pair) {
			check("EqualFold", ascii.EqualFold([]byte(p.a), []byte(p.b)), refEqualFold([]byte(p.a), []byte(p.b)), p.a+"|"+p.b)
		},
		func(p pair) {
			check("EqualFoldString", ascii.EqualFoldString(p.a, p.b), refEqualFold([]byte(p.a), []byte(p.b)), p.a+"|"+p.b)
		},
		func(p pair) {
			check("Valid", ascii.Valid([]byte(p.a+"\x80")), false, p.a)
			check("Valid", ascii.Valid([]byte(p.a)), true, p.a)
		},
		func(p pair) {
			check("ValidString", ascii.ValidString(p.a+"\xff"), false, p.a)
			check("ValidString", ascii.ValidString(p.b), true, p.b)
		},
		func(p pair) {
			check("ValidPrint", ascii.ValidPrint([]byte(p.a+"\x7f")), false, p.a)
			check("ValidPrint", ascii.ValidPrint([]byte(p.a)), true, p.a)
		},
		func(p pair) {
			check("ValidPrintString", ascii.ValidPrintString("\x1f"+p.a), false, p.a)
			check("ValidPrintString", ascii.ValidPrintString(p.b), true, p.b)
		},
		func(p pair) {
			check("ValidPrintByte", ascii.ValidPrintByte(p.a[0]|0x80), false, p.a)
			check("ValidByte", ascii.ValidByte(p.a[0]), true, p.a)
		},
		func(p pair) {
			check("ValidPrintRune", ascii.ValidPrintRune(rune(p.a[0])+0x100), false, p.a)
			check("ValidRune", ascii.ValidRune(rune(p.a[0])), true, p.a)
		},
	}
	// this case's function first, on every pair; then all the others
	for k := 0; k < len(fns); k++ {
		f := fns[(c.Index+k)%len(fns)]
		for _, p := range pairs {
			f(p)
			f(pair{p.b, p.a})
		}
	}
	c.Count("evaluations.first-call", n)
	c.Distinct(uint64(c.Index%len(fns)), true)
}

// long-lengths: lengths around every multiple of 64 up to 4096 and around 8192 / 65536, a
// deviating byte near the start, the middle and the block boundaries at the end.
func longLengths() []int {
	var ls []int
	for k := 3; k <= 64; k++ {
		ls = append(ls, 64*k-1, 64*k, 64*k+1)
	}
	return append(ls, 8191, 8192, 8193, 65535, 65536, 65537)
}

func runLongLengths(c *core.Case) {
	ls := longLengths()
	L := ls[c.Index/3]
	A := []int{0, 1, 7}[c.Index%3]
	c.Journal(fmt.Sprintf("long-L%d", L))
	page := aligned(L + 256)
	for i := range page {
		page[i] = 0xff
	}
	s := page[64+A : 64+A+L : 64+A+L]
	for i := range s {
		s[i] = "az AZ~09"[i%8]
	}
	var h uint64 = 14695981039346656037
	n := 0
	check := func(what string, got, want bool, p int, v byte) {
		n++
		h = (h ^ uint64(b2i(got))) * 1099511628211
		if got != want {
			c.Violation("ascii."+what+"|long", fmt.Sprintf("got=%v,want=%v", got, want), fmt.Sprintf("%s on len=%d align=%d deviating byte %#x at %d (%d from the end)", what, L, A, v, p, L-p), map[string]any{"len": L, "align": A, "pos": p, "byte": v, "func": what})
		}
	}
	eval := func(p int, v byte) {
		wv, wp := refValid(s), refValidPrint(s)
		check("Valid", ascii.Valid(s), wv, p, v)
		check("ValidString", ascii.ValidString(bstr(s)), wv, p, v)
		check("ValidPrint", ascii.ValidPrint(s), wp, p, v)
		check("ValidPrintString", ascii.ValidPrintString(bstr(s)), wp, p, v)
	}
	eval(-1, 0)
	for _, p := range []int{0, 1, 7, 8, 63, 64, L / 2, L - 257, L - 256, L - 255, L - 129, L - 128, L - 127, L - 65, L - 64, L - 63, L - 33, L - 32, L - 31, L - 17, L - 16, L - 15, L - 9, L - 8, L - 7, L - 2, L - 1} {
		if p < 0 || p >= L {
			continue
		}
		old := s[p]
		for _, v := range []byte{0x1f, 0x7f, 0x80} {
			s[p] = v
			eval(p, v)
		}
		s[p] = old
	}
	c.Count("evaluations.predicate", n)
	c.Distinct(core.Mix(uint64(L), uint64(A)+1000), true)
	c.Digest(fmt.Sprintf("long.L%d.A%d", L, A), h)
}

func runByteRune(c *core.Case) {
	c.Journal("byte-rune")
	var h uint64 = 14695981039346656037
	n := 0
	chk := func(what string, got, want bool, v int64) {
		n++
		h = (h ^ uint64(b2i(got))) * 1099511628211
		if got != want {
			c.Violation("ascii."+what, fmt.Sprintf("got=%v,want=%v", got, want), fmt.Sprintf("%s(%#x)", what, v), map[string]any{"func": what, "arg": v})
		}
	}
	for i := 0; i < 256; i++ {
		b := byte(i)
		chk("ValidByte", ascii.ValidByte(b), b < 0x80, int64(i))
		chk("ValidPrintByte", ascii.ValidPrintByte(b), b >= 0x20 && b <= 0x7e, int64(i))
	}
	// Negative values are not runes; the statement defines the predicates on
	// code points, so only r >= 0 is in the domain.
	for r := rune(0); r <= 0x110100; r++ {
		chk("ValidRune", ascii.ValidRune(r), r < 0x80, int64(r))
		chk("ValidPrintRune", ascii.ValidPrintRune(r), r >= 0x20 && r <= 0x7e, int64(r))
	}
	for _, r := range []rune{1<<31 - 1, 0x80 + 256, 0x20 + 256, 0x7e + 1<<16, 0x41 + 1<<24, 0x41 + 1<<8} {
		chk("ValidRune", ascii.ValidRune(r), r < 0x80, int64(r))
		chk("ValidPrintRune", ascii.ValidPrintRune(r), r >= 0x20 && r <= 0x7e, int64(r))
	}
	c.Count("evaluations.byterune", n)
	c.Distinct(1, true)
	c.Digest("all", h)
	c.Sample(1, map[string]any{"sub": "byte-rune", "bytes": 256, "runes": "0..0x110100 and width-boundary values", "evaluations": n})
}

// Dependent fast path in json: strings with one deviating byte at each position.
type S40 struct {
	Aaaaaaaaaaaaaaaaaaaaaaaaaaaaaaaaaaaaaaaa int
	Bb                                       int
}

func jsonDims(t core.Tier) int {
	if t == core.Thorough {
		return 96
	}
	return 72
}

func runJSONFast(c *core.Case) {
	maxL := jsonDims(c.Tier)
	L := c.Index % (maxL + 1)
	c.Journal(fmt.Sprintf("json-fast-L%d", L))
	n := 0
	for p := 0; p < L || p == 0; p++ {
		for v := 0; v < 256; v++ {
			doc := make([]byte, 0, L+16)
			doc = append(doc, '"')
			for i := 0; i < L; i++ {
				doc = append(doc, 'a')
			}
			if L > 0 {
				doc[1+p] = byte(v)
			}
			doc = append(doc, '"')
			n++
			want := stdjson.Valid(doc)
			if got := json.Valid(doc); got != want {
				c.Violation("json.Valid.string-byte", fmt.Sprintf("pkg=%v,std=%v", got, want), fmt.Sprintf("Valid(%q)", doc), map[string]any{"doc": string(doc), "len": L, "pos": p, "byte": v})
			}
			for _, fl := range []json.ParseFlags{0, json.ZeroCopy} {
				var s1, s2 string
				in := append([]byte(nil), doc...)
				rest, e1 := json.Parse(in, &s1, fl)
				if e1 == nil && len(rest) != 0 {
					e1 = fmt.Errorf("trailing data")
				}
				e2 := stdjson.Unmarshal(doc, &s2)
				if (e1 == nil) != (e2 == nil) || (e1 == nil && s1 != s2) {
					c.Violation("json.Parse.string-byte", fmt.Sprintf("pkg=%v,std=%v", errstr(e1), errstr(e2)), fmt.Sprintf("Parse(%q) flags=%d -> %q vs %q", doc, fl, s1, s2), map[string]any{"doc": string(doc), "flags": uint32(fl)})
				}
			}
			if L > 0 {
				// as an object key matched against struct fields (lower-casing path)
				kd := append(append([]byte(`{`), doc...), []byte(`:7,"bb":1}`)...)
				var t1, t2 S40
				e1 := json.Unmarshal(append([]byte(nil), kd...), &t1)
				e2 := stdjson.Unmarshal(kd, &t2)
				n++
				if (e1 == nil) != (e2 == nil) || (e1 == nil && t1 != t2) {
					c.Violation("json.Unmarshal.key-byte", fmt.Sprintf("pkg=%v,std=%v", errstr(e1), errstr(e2)), fmt.Sprintf("Unmarshal(%q) -> %+v vs %+v", kd, t1, t2), map[string]any{"doc": string(kd)})
				}
			}
			if L == 0 {
				break
			}
		}
	}
	c.Count("evaluations.json", n)
	c.Distinct(uint64(L)+1000, true)
	c.Sample(L, map[string]any{"sub": "json-fastpath", "string_len": L, "documents": n})
}

func errstr(e error) string {
	if e == nil {
		return "ok"
	}
	return "err"
}

func init() {
	core.Register(&core.Monitor{
		Prop:    "C20",
		Rule:    "first-call: each of the twelve entry points as the first call a fresh worker process makes (the shards start at different cases), on matching and deviating inputs. long-lengths: lengths 64k-1, 64k, 64k+1 up to 4097 and around 8192 and 65536 at alignments 0/1/7, a deviating byte (0x1f, 0x7f, 0x80) at the start, the middle and at every block boundary of 8..256 bytes before the end. valid-sweep: one case per (length, start alignment) of a slice inside a page-aligned buffer whose surroundings have the opposite classification (then again with the capacity reaching to the end of the buffer and the neighbouring bytes set to 0xff/0x80/0x7f/0x5f/0x1f/0x00/'a'); inside a case every position x every deviating value (all 256 values for lengths<=80, 7 boundary values above) is evaluated for Valid/ValidString/ValidPrint/ValidPrintString against byte-wise loops. fold-sweep: one case per (length, position); all 128x128 ASCII byte pairs (or the 768 letter-focused pairs) at that position for EqualFold/HasPrefixFold/HasSuffixFold and String variants plus the -1/0/+1 length relations and arguments that are views of one buffer sharing their start or their end (either one the longer). byte-rune: all 256 bytes and every rune. json-fastpath: strings/keys with one deviating byte at each position vs encoding/json. A case is distinct by its (length, alignment|position) and non-trivial when length>0. Every answer is folded into a per-case hash that must be equal in the default and purego builds.",
		Trusted: []string{"byte-wise reference loops in mon/c20 (transcribed from the statement)", "encoding/json (go1.23.5) for the dependent JSON fast path"},
		Subs: []core.Sub{
			{Name: "first-call", N: core.Const(24, 24), Run: runFirstCall},
			{Name: "long-lengths", N: func(core.Tier) int { return 3 * len(longLengths()) }, Run: runLongLengths},
			{Name: "valid-sweep", N: func(t core.Tier) int { d := validDims(t); return (d.maxLen + 1) * d.maxAlign }, Run: runValid},
			{Name: "fold-sweep", N: func(t core.Tier) int {
				if t == core.Thorough {
					return len(foldT)
				}
				return len(foldQ)
			}, Run: runFold},
			{Name: "byte-rune", N: core.Const(1, 1), Run: runByteRune},
			{Name: "json-fastpath", N: func(t core.Tier) int { return jsonDims(t) + 1 }, Run: runJSONFast, Modes: []string{"plain"}},
		},
	})
}
