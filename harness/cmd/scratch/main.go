package main

import (
	stdjson "encoding/json"
	"fmt"
	"os"

	"github.com/segmentio/encoding/json"
)

type K struct{ A int }

func (k *K) MarshalText() ([]byte, error) { return []byte(fmt.Sprintf("k%d", k.A)), nil }

type VT int

func (v VT) MarshalText() ([]byte, error)  { return []byte("text"), nil }
func (v *VT) MarshalJSON() ([]byte, error) { return []byte(`"json"`), nil }

type D1 struct{ X int }
type D2 struct{ X int }
type Mid struct{ D2 }
type Amb struct {
	D1
	Mid
}

func main() {
	switch os.Args[1] {
	case "iface":
		type S struct {
			I any `json:"i,omitempty"`
		}
		var p *int
		a, _ := json.Marshal(S{I: p})
		b, _ := stdjson.Marshal(S{I: p})
		fmt.Printf("omitempty iface nil ptr: pkg=%s std=%s\n", a, b)
		v := VT(1)
		a, _ = json.Marshal(&v)
		b, _ = stdjson.Marshal(&v)
		fmt.Printf("VT ptr: pkg=%s std=%s\n", a, b)
		a, _ = json.Marshal(struct{ V VT }{1})
		b, _ = stdjson.Marshal(struct{ V VT }{1})
		fmt.Printf("VT field by value: pkg=%s std=%s\n", a, b)
		a, _ = json.Marshal(&struct{ V VT }{1})
		b, _ = stdjson.Marshal(&struct{ V VT }{1})
		fmt.Printf("VT field addressable: pkg=%s std=%s\n", a, b)
		a, _ = json.Marshal(Amb{D1{1}, Mid{D2{2}}})
		b, _ = stdjson.Marshal(Amb{D1{1}, Mid{D2{2}}})
		fmt.Printf("depth: pkg=%s std=%s\n", a, b)
	case "ptrkey":
		b, err := stdjson.Marshal(map[*K]int{{1}: 1})
		fmt.Printf("std: %s %v\n", b, err)
		a, err := json.Marshal(map[*K]int{{1}: 1})
		fmt.Printf("pkg: %s %v\n", a, err)
	case "recarray":
		type T [1]*T
		_ = T{}
	}
}
