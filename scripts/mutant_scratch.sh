#!/bin/bash
# usage: mutant_scratch.sh <patch.diff> <property> [quick|thorough]
# Self-test aid: applies a seeded change to a scratch worktree of /repo (never /repo itself), points the
# harness at it through VERIF_REPO (-modfile build), runs the property's check and removes the worktree.
patch=$(realpath "$1"); prop=$2; tier=${3:-quick}
wt=/tmp/wt/ms.$$
git -C /repo worktree add --detach "$wt" HEAD >/dev/null 2>&1 || exit 2
trap 'git -C /repo worktree remove --force "$wt" >/dev/null 2>&1' EXIT
git -C "$wt" apply "$patch" || { echo "patch does not apply"; exit 2; }
cd /verif && VERIF_REPO="$wt" VERIF_NOEVIDENCE=1 ./check "$prop" "$tier"; rc=$?
echo "mutant-result patch=$patch property=$prop exit=$rc"
exit $rc
