package main

import (
	"fmt"
	"reflect"

	"github.com/segmentio/encoding/thrift"
	"verifharness/core"
	"verifharness/gen/ttypes"
)

type inner struct {
	X int64  `thrift:"1"`
	W string `thrift:"5,required"`
}
type EmbUnexp struct {
	inner
	Y string `thrift:"2"`
}

func main() {
	f := &ttypes.Filler{R: core.NewRand(3)}
	t := reflect.TypeOf(EmbUnexp{})
	v := f.NewValue(t)
	fmt.Printf("%+v\n", v.Interface())
	b, err := thrift.Marshal(&thrift.CompactProtocol{}, v.Interface())
	fmt.Printf("% x %v\n", b, err)
	out := reflect.New(t)
	err = thrift.Unmarshal(&thrift.CompactProtocol{}, b, out.Interface())
	fmt.Printf("%+v %v\n", out.Elem().Interface(), err)
}
