// Package c04: thrift Unmarshal(Marshal(v)) == v for the binary and compact protocols.
package c04

import (
	"bytes"
	"fmt"
	"reflect"

	"github.com/segmentio/encoding/thrift"
	"verifharness/core"
	"verifharness/gen/tspec"
	"verifharness/gen/ttypes"
)

type proto struct {
	name    string
	p       thrift.Protocol
	compact bool
}

var protocols = []proto{
	{"binary-strict", &thrift.BinaryProtocol{}, false},
	{"binary-nonstrict", &thrift.BinaryProtocol{NonStrict: true}, false},
	{"compact", &thrift.CompactProtocol{}, true},
}

func tr(b []byte) []byte {
	if len(b) > 80 {
		return b[:80]
	}
	return b
}

func show(v reflect.Value) string {
	s := fmt.Sprintf("%+v", v.Interface())
	if len(s) > 260 {
		s = s[:260] + "…"
	}
	return s
}

// fieldClass names the kind of the field a difference path starts with.
func fieldClass(t reflect.Type, diff string) string {
	for t.Kind() == reflect.Pointer {
		t = t.Elem()
	}
	if t.Kind() != reflect.Struct || len(diff) < 2 || diff[0] != '.' {
		return Shape(t)
	}
	name := diff[1:]
	for i, ch := range name {
		if ch == '.' || ch == '[' || ch == ':' || ch == '*' || ch == '(' {
			name = name[:i]
			break
		}
	}
	f, ok := t.FieldByName(name)
	if !ok {
		return "struct"
	}
	return Shape(f.Type)
}

// Shape abbreviates a type to its outer constructors.
func Shape(t reflect.Type) string {
	switch t.Kind() {
	case reflect.Pointer:
		return "*" + Shape(t.Elem())
	case reflect.Slice:
		if t.Elem().Kind() == reflect.Uint8 {
			return "bytes"
		}
		return "[]" + Shape(t.Elem())
	case reflect.Map:
		if t.Elem().Size() == 0 {
			return "set"
		}
		return "map<" + Shape(t.Elem()) + ">"
	case reflect.Struct:
		if ttypes.IsUnion(t) {
			return "union"
		}
		return "struct"
	case reflect.Interface:
		return "union-member"
	case reflect.Int, reflect.Int8, reflect.Int16, reflect.Int32, reflect.Int64:
		return "int"
	case reflect.Float32, reflect.Float64:
		return "float"
	}
	return t.Kind().String()
}

// roundTrip marshals v (a value of type t, addressable) with p and decodes it again.
// the previous Marshal result and a copy of what it held
var (
	heldBytes, heldSnap []byte
	heldDesc            string
)

func roundTrip(c *core.Case, sub string, p proto, t reflect.Type, v reflect.Value, viaPointer bool) bool {
	cls := sub + "|" + p.name
	c.Journal(cls)
	var b []byte
	var err error
	arg := v.Interface()
	if viaPointer {
		arg = v.Addr().Interface()
	}
	if sig, stk := core.Guard(func() { b, err = thrift.Marshal(p.p, arg) }); sig != "" {
		c.Violation(cls+"|Marshal", sig, fmt.Sprintf("Marshal(%s) of %s (%s) panicked: %s", p.name, show(v), ttypes.TypeString(t), stk), map[string]any{"type": ttypes.TypeString(t)})
		return false
	}
	w := map[string]any{"type": ttypes.TypeString(t), "value": show(v), "protocol": p.name}
	if err != nil {
		c.Violation(cls+"|Marshal", "error", fmt.Sprintf("Marshal(%s) of %s failed: %v", p.name, show(v), err), w)
		return false
	}
	w["bytes_hex"] = fmt.Sprintf("%x", tr(b))
	// a payload obtained earlier is the caller's: marshalling something else in between (this
	// value, possibly with another protocol) leaves it as it was, and it still decodes
	if heldBytes != nil && !bytes.Equal(heldBytes, heldSnap) {
		c.Violation(cls+"|Marshal", "earlier-result-overwritten", fmt.Sprintf("the result of an earlier Marshal (%d bytes, %s) changed when another value was marshalled: now %x, was %x", len(heldSnap), heldDesc, tr(heldBytes), tr(heldSnap)), w)
		heldBytes = nil
		return false
	}
	heldBytes, heldSnap, heldDesc = b, append([]byte(nil), b...), p.name
	out := reflect.New(t)
	if sig, stk := core.Guard(func() { err = thrift.Unmarshal(p.p, b, out.Interface()) }); sig != "" {
		c.Violation(cls+"|Unmarshal", sig, fmt.Sprintf("Unmarshal(%s) of its own output %x for %s panicked: %s", p.name, tr(b), show(v), stk), w)
		return false
	}
	if err != nil {
		c.Violation(cls+"|Unmarshal", "error", fmt.Sprintf("Unmarshal(%s) rejects the package's own output %x for %s: %v", p.name, tr(b), show(v), err), w)
		return false
	}
	if ok, d := ttypes.Equal(v, out.Elem()); !ok {
		c.Violation(cls+"|"+fieldClass(t, d), "value-diff", fmt.Sprintf("%s | %s | bytes %x | want %s | got %s", d, p.name, tr(b), show(v), show(out.Elem())), w)
		return false
	}
	c.Count("round-trips."+p.name, 1)
	return true
}

func genType(c *core.Case, cfg ttypes.Cfg, top bool) (t reflect.Type, ok bool) {
	sig, _ := core.Guard(func() {
		g := ttypes.New(c.Rng.Fork(1), cfg)
		t = g.Struct(0)
		if top && t.NumField() > 0 && c.Rng.Chance(1, 8) {
			t = t.Field(0).Type // a bare value at the top level
		}
	})
	return t, sig == ""
}

func runGenerated(c *core.Case) {
	t, ok := genType(c, ttypes.Cfg{MaxDepth: 3, MaxFields: 8, Unions: true, Embedding: true}, true)
	if !ok {
		c.Count("generator.panic", 1)
		return
	}
	f := &ttypes.Filler{R: c.Rng.Fork(2)}
	for k := 0; k < 3; k++ {
		v := f.NewValue(t)
		for pi, p := range protocols {
			if !roundTrip(c, "generated", p, t, v, (c.Index+k+pi)%4 == 0) {
				return
			}
		}
		nf := 1
		if t.Kind() == reflect.Struct {
			nf = t.NumField()
		}
		c.Distinct(core.Mix(core.HashString(t.String()), core.HashString(tspec.Canon(ttypes.TreeOf(v)))), nf > 0)
		c.Sample(nf, map[string]any{"sub": "generated", "type": ttypes.TypeString(t), "value": show(v)})
	}
}

// ---- library of declared types: embedding, recursion, pointer chains ----------------------------

type Inner struct {
	A bool   `thrift:"1"`
	B int32  `thrift:"2,required"`
	C string `thrift:"40"`
}

type Base struct {
	X int64 `thrift:"100"`
	Y *bool `thrift:"101"`
}

type EmbVal struct {
	Base
	Z string `thrift:"1"`
}

type EmbPtr struct {
	*Base
	Z []int16 `thrift:"300"`
}

type Rec struct {
	Value string `thrift:"1"`
	Next  *Rec   `thrift:"2"`
	Test  *bool  `thrift:"3"`
	Kids  []Rec  `thrift:"20"`
}

type PtrPtr struct {
	Test **bool  `thrift:"1"`
	N    **int32 `thrift:"17"`
}

type EmbPtrPtr struct {
	*PtrPtr
}

type Bools struct {
	A bool    `thrift:"1"`
	B bool    `thrift:"2,required"`
	C *bool   `thrift:"3"`
	D Inner   `thrift:"4"`
	E *Inner  `thrift:"5"`
	F []bool  `thrift:"6"`
	G []Inner `thrift:"70"`
	H bool    `thrift:"200,required"`
}

type U struct {
	A bool    `thrift:"1"`
	B int     `thrift:"2"`
	C string  `thrift:"3"`
	D Inner   `thrift:"4"`
	E []int64 `thrift:"90"`
	F any     `thrift:",union"`
}

type HoldsU struct {
	One  U   `thrift:"1"`
	Many []U `thrift:"2"`
	P    *U  `thrift:"3"`
}

type Deep3 struct {
	X int64  `thrift:"1"`
	Y int64  `thrift:"2"`
	S string `thrift:"30"`
}
type Deep2 struct{ Deep3 }
type Deep1 struct{ *Deep2 }
type Deep0 struct {
	Deep1
	Z int64 `thrift:"3"`
}

// unexported embedded struct types are flattened like exported ones
type inner struct {
	X int64  `thrift:"1"`
	W string `thrift:"5,required"`
}
type inner2 struct {
	inner
	Q []int16 `thrift:"9"`
}
type EmbUnexp struct {
	inner
	Y string `thrift:"2"`
}
type EmbUnexp2 struct {
	A bool `thrift:"100"`
	inner2
}

// embedded fields of named non-struct types carry their own tag
type Label string
type Scores []int32
type Flag bool
type EmbNamed struct {
	Label  `thrift:"1"`
	Scores `thrift:"2"`
	Flag   `thrift:"30,required"`
	N      int64 `thrift:"4"`
}

type Wide struct {
	A int8   `thrift:"1,required"`
	B int16  `thrift:"64,required"`
	C int32  `thrift:"65,required"`
	D int64  `thrift:"128,required"`
	E string `thrift:"129"`
	F bool   `thrift:"32767,required"`
}

var library = []reflect.Type{
	reflect.TypeOf(Inner{}), reflect.TypeOf(EmbVal{}), reflect.TypeOf(EmbPtr{}), reflect.TypeOf(Rec{}), reflect.TypeOf(PtrPtr{}), reflect.TypeOf(EmbPtrPtr{}),
	reflect.TypeOf(Bools{}), reflect.TypeOf(U{}), reflect.TypeOf(HoldsU{}), reflect.TypeOf(Wide{}), reflect.TypeOf(Deep0{}), reflect.TypeOf(EmbNamed{}), reflect.TypeOf(EmbUnexp{}), reflect.TypeOf(EmbUnexp2{}), reflect.TypeOf([]Rec{}), reflect.TypeOf(map[string]Bools{}), reflect.TypeOf(map[Inner]struct{}{}),
}

// fillLib fills library values: like the generic filler, plus embedded pointers and recursion.
func fillLib(r *core.Rand, f *ttypes.Filler, v reflect.Value, depth int) {
	t := v.Type()
	switch t {
	case reflect.TypeOf(Rec{}):
		v.Field(0).SetString(r.String(8))
		if depth < 4 && r.Bool() {
			n := reflect.New(t)
			fillLib(r, f, n.Elem(), depth+1)
			v.Field(1).Set(n)
		}
		if r.Bool() {
			b := r.Bool()
			v.Field(2).Set(reflect.ValueOf(&b))
		}
		if depth < 3 && r.Chance(1, 3) {
			n := r.Intn(3)
			s := reflect.MakeSlice(v.Field(3).Type(), n, n)
			for i := 0; i < n; i++ {
				fillLib(r, f, s.Index(i), depth+2)
			}
			v.Field(3).Set(s)
		}
		return
	case reflect.TypeOf(EmbPtr{}):
		if r.Chance(2, 3) {
			b := reflect.New(reflect.TypeOf(Base{}))
			b.Elem().Set(f.NewValue(reflect.TypeOf(Base{})))
			v.Field(0).Set(b)
		}
		v.Field(1).Set(f.NewValue(v.Field(1).Type()))
		return
	case reflect.TypeOf(EmbPtrPtr{}):
		if r.Chance(2, 3) {
			b := reflect.New(reflect.TypeOf(PtrPtr{}))
			b.Elem().Set(f.NewValue(reflect.TypeOf(PtrPtr{})))
			v.Field(0).Set(b)
		}
		return
	}
	switch t.Kind() {
	case reflect.Slice:
		if t.Elem() == reflect.TypeOf(Rec{}) {
			n := r.Intn(4)
			s := reflect.MakeSlice(t, n, n)
			for i := 0; i < n; i++ {
				fillLib(r, f, s.Index(i), depth+1)
			}
			v.Set(s)
			return
		}
	}
	v.Set(f.NewValue(t))
}

func runLibrary(c *core.Case) {
	r := c.Rng
	t := library[c.Index%len(library)]
	f := &ttypes.Filler{R: r.Fork(2)}
	v := reflect.New(t).Elem()
	fillLib(r, f, v, 0)
	for _, p := range protocols {
		if !roundTrip(c, "library|"+t.Name(), p, t, v, c.Index%2 == 0) {
			return
		}
	}
	c.Distinct(core.Mix(core.HashString(t.String()), core.HashString(fmt.Sprintf("%+v", v.Interface()))), true)
}

// ---- reuse: an Encoder / Decoder that was Reset behaves like a fresh one -------------------------

func runReuse(c *core.Case) {
	r := c.Rng
	steps := r.Range(2, 6)
	var enc *thrift.Encoder
	var dec *thrift.Decoder
	strict := r.Bool()
	var trail []string
	for s := 0; s < steps; s++ {
		p := protocols[r.Intn(3)]
		var t reflect.Type
		sig, _ := core.Guard(func() {
			g := ttypes.New(r.Fork(uint64(s)), ttypes.Cfg{MaxDepth: 2, MaxFields: 6})
			t = g.Struct(0)
		})
		if sig != "" {
			return
		}
		f := &ttypes.Filler{R: r.Fork(uint64(100 + s))}
		nvals := r.Range(1, 3)
		vals := make([]reflect.Value, nvals)
		for i := range vals {
			vals[i] = f.NewValue(t)
		}
		trail = append(trail, fmt.Sprintf("%s x%d", p.name, nvals))
		cls := "reuse|" + p.name
		c.Journal(cls)
		// encoder: several values into one buffer, through a reused encoder
		buf := new(bytes.Buffer)
		w := p.p.NewWriter(buf)
		if enc == nil {
			enc = thrift.NewEncoder(w)
		} else {
			enc.Reset(w)
		}
		var fresh []byte
		unordered := false
		for _, v := range vals {
			var err error
			if sig, stk := core.Guard(func() { err = enc.Encode(v.Interface()) }); sig != "" || err != nil {
				c.Violation(cls+"|Encode", "failed:"+sig, fmt.Sprintf("reused Encoder (history %v): Encode failed: %v %s", trail, err, stk), nil)
				return
			}
			b, _ := thrift.Marshal(p.p, v.Interface())
			fresh = append(fresh, b...)
			unordered = unordered || tspec.HasUnordered(ttypes.TreeOf(v))
		}
		got := buf.Bytes()
		if len(got) != len(fresh) || (!unordered && !bytes.Equal(got, fresh)) {
			c.Violation(cls+"|Encode", "differs-from-fresh", fmt.Sprintf("an Encoder that was Reset (history %v) wrote %x, a fresh one %x", trail, tr(got), tr(fresh)), map[string]any{"history": trail})
			return
		}
		// decoder: a reused decoder over the stream of values
		br := bytes.NewReader(append([]byte(nil), got...))
		rd := p.p.NewReader(br)
		if dec == nil {
			dec = thrift.NewDecoder(rd)
			dec.SetStrict(strict)
		} else {
			dec.Reset(rd)
		}
		for i, v := range vals {
			out := reflect.New(t)
			var err error
			if sig, stk := core.Guard(func() { err = dec.Decode(out.Interface()) }); sig != "" || err != nil {
				c.Violation(cls+"|Decode", "failed:"+sig, fmt.Sprintf("reused Decoder (history %v, strict=%v): Decode of value %d of %x failed: %v %s", trail, strict, i, tr(got), err, stk), map[string]any{"history": trail})
				return
			}
			if ok, d := ttypes.Equal(v, out.Elem()); !ok {
				c.Violation(cls+"|Decode", "value-diff", fmt.Sprintf("reused Decoder (history %v, strict=%v): %s | want %s | got %s", trail, strict, d, show(v), show(out.Elem())), map[string]any{"history": trail})
				return
			}
		}
		if br.Len() != 0 {
			c.Violation(cls+"|Decode", "bytes-left", fmt.Sprintf("reused Decoder left %d bytes of the stream unread (history %v)", br.Len(), trail), nil)
			return
		}
		c.Count("reuse.steps", 1)
	}
	c.Distinct(core.HashString(fmt.Sprint(trail, strict)), true)
	c.Sample(steps, map[string]any{"sub": "reuse", "history": trail})
}

// long collections: sizes around the decoder's preallocation cap (64 KiB worth of elements) and
// its doublings
type longElem struct {
	A int8 `thrift:"1"`
}

type longT struct {
	I  []int64            `thrift:"1"`
	S  []string           `thrift:"2"`
	B  []bool             `thrift:"3"`
	T  []longElem         `thrift:"4"`
	M  map[int32]int32    `thrift:"5"`
	Z  map[int64]struct{} `thrift:"6"`
	I8 []int8             `thrift:"7"`
	St string             `thrift:"8"`
	By []byte             `thrift:"9"`
}

func runLong(c *core.Case) {
	c.Journal("long-collections")
	var v longT
	field := c.Index % 9
	// element sizes: int64 8, string 16, bool 1, struct 1, map entry 8+8, set 8+8, int8 1; strings
	// and binary values are read in chunks of 64 KiB that double
	cap64k := []int{8192, 4096, 65536, 65536, 4096, 4096, 65536, 65536, 65536}[field]
	n := []int{cap64k - 1, cap64k, cap64k + 1, cap64k + cap64k/3, 2*cap64k + 1, 3 * cap64k, 4*cap64k + 1, 9 * cap64k}[(c.Index/9)%8]
	switch field {
	case 0:
		v.I = make([]int64, n)
		for i := range v.I {
			v.I[i] = int64(i) - 7
		}
	case 1:
		v.S = make([]string, n)
		for i := range v.S {
			v.S[i] = fmt.Sprint(i % 97)
		}
	case 2:
		v.B = make([]bool, n)
		for i := range v.B {
			v.B[i] = i%3 == 0
		}
	case 3:
		v.T = make([]longElem, n)
		for i := range v.T {
			v.T[i].A = int8(i)
		}
	case 4:
		v.M = make(map[int32]int32, n)
		for i := 0; i < n; i++ {
			v.M[int32(i)] = int32(-i)
		}
	case 5:
		v.Z = make(map[int64]struct{}, n)
		for i := 0; i < n; i++ {
			v.Z[int64(i)*3] = struct{}{}
		}
	case 6:
		v.I8 = make([]int8, n)
		for i := range v.I8 {
			v.I8[i] = int8(i * 7)
		}
	case 7:
		b := make([]byte, n)
		for i := range b {
			b[i] = 'a' + byte((i/3+i/65536)%26)
		}
		v.St = string(b)
	default:
		v.By = make([]byte, n)
		for i := range v.By {
			v.By[i] = byte(i*7+i/65536) | 1
		}
	}
	val := reflect.ValueOf(&v).Elem()
	for _, p := range protocols {
		if !roundTrip(c, fmt.Sprintf("long|field%d", field), p, val.Type(), val, false) {
			return
		}
	}
	c.Count("long-collections.elements", n)
	c.Distinct(core.Mix(uint64(field), uint64(n)), true)
}

func init() {
	core.Register(&core.Monitor{
		Prop:    "C04",
		Rule:    "generated: struct types built at run time (0-70 fields; ids consecutive, with gaps inside and beyond the delta short form, ranges beyond 64 and 128, up to 32767, declared in any order; required/optional/enum; bool, int8..int64, int, float32/64, string, []byte, pointers to scalars, nested and pointer-to structs, lists, sets (also of named zero-size element types), maps, unions; occasionally a bare list/map/scalar at the top level) x 3 values (required pointers non-nil, no nil collection elements, no NaN keys) x {binary strict, binary non-strict, compact}, by value and through a pointer: Marshal must not fail and must leave the result of the previous Marshal call as it was, Unmarshal of the result must not fail and must be equal (nil == empty collections, floats by == or both NaN, unions through the member pointer). library: declared types with embedded structs by value and by pointer, recursion, pointer-to-pointer fields, bools in nested/pointer/list positions, unions nested in structs/lists/pointers, ids at 64/65/128/129/32767. long-collections: lists, sets and maps with as many elements as the decoder preallocates (64 KiB worth), one less, one more, 4/3, 2x+1, 3x, 4x+1 and 9x as many; strings and binary values of those lengths around the 64 KiB read chunk, with content that differs from chunk to chunk. reuse: one Encoder and one Decoder carried through 2-6 Reset calls across protocols (strict on/off), several values per stream: bytes equal to a fresh Marshal and values equal. Differences are classified by protocol and by the shape of the first differing field.",
		Trusted: []string{"harness/gen/ttypes.Equal (nil == empty, == on floats, union member through its pointer)", "reflect.StructOf-built types take the same codec construction path as declared ones"},
		Subs: []core.Sub{
			{Name: "generated", N: core.Const(15000, 600000), Run: runGenerated},
			{Name: "library", N: core.Const(4000, 100000), Run: runLibrary},
			{Name: "long-collections", N: core.Const(72, 720), Run: runLong},
			{Name: "reuse", N: core.Const(3000, 100000), Run: runReuse},
		},
	})
}
