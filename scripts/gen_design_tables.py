#!/usr/bin/env python3
# Regenerates the machine-derived tables of DESIGN.md (between the BEGIN/END GENERATED markers):
# fixes and known findings from KNOWN_FINDINGS.txt, seeded changes from seeded/*/meta.json.
import json, glob, os, re, collections
V='/verif'
fixed=collections.defaultdict(list); known=[]
for l in open(V+'/KNOWN_FINDINGS.txt'):
    l=l.strip()
    m=re.match(r'fixed: property=(C\d+) (\S+) (.*)',l)
    if m: fixed[m.group(1)].append((m.group(2),m.group(3)))
    m=re.match(r'known: property=(C\d+) key=(\S+) witness=(\S+)(?: mode=\S+)? :: (.*)',l)
    if m: known.append(m.groups())
out=[]
out.append('### 13.3 Genuine defects repaired in /repo (`fix:` commits)\n')
out.append('Each line is one `fixed:` entry of `KNOWN_FINDINGS.txt`; the property is the one whose monitor first showed the failing input. '
           'Every commit passed the unedited repository suite (scripts/repo_commit.sh runs `go test ./...` before committing).\n')
out.append('| property | commit | what failed |\n|---|---|---|')
n=0
for p in sorted(fixed):
    for c,t in fixed[p]:
        out.append('| %s | `%s` | %s |'%(p,c[:7],t.replace('|','\\|'))); n+=1
out.append('\n%d repairs in total.\n'%n)
out.append('### 13.4 Known findings (genuine, recorded, not repaired)\n')
out.append('| property | key (glob) | witness | what fails |\n|---|---|---|---|')
for p,k,w,t in known:
    out.append('| %s | `%s` | `%s` | %s |'%(p,k.replace('|','\\|'),w,t.replace('|','\\|')))
out.append('')
out.append('### 13.5 Seeded changes and the checks that catch them\n')
out.append('Written by sub-agents that saw only the property text and a scratch worktree; each was confirmed by me '
           '(suite passes with the patch, demonstration fails with it and passes without) and then run against the '
           "property's quick check through `scripts/mutant_scratch.sh` (scratch worktree + `VERIF_REPO`, never /repo). "
           'All are detected (exit 1 with VIOLATION lines); the last column says what had to be strengthened first. m1-m3 are the first round (written against the pinned tree, some rebased onto the repaired tree), m4-m6 a second round written against the repaired tree for all 20 properties: 53 of those 60 were caught as they were, 7 showed gaps that were closed (C05-m6, C07-m6, C08-m5, C09-m5, C09-m6, C11-m4, C12-m6); closing the C07 gap exposed one more genuine defect (608e2cd). m7-m9 are a third round, whose authors were told what the earlier rounds had changed and asked for other sites and other kinds of mistakes: 39 of 60 were caught as they were, 21 showed gaps, all closed (the notes say how); the types added for them exposed nine further genuine defects of the library (six json encoder/decoder differences from encoding/json, two crashes, one proto wire-format defect), all repaired. m10-m12 are a fourth round under the same instructions: 42 of 60 were caught as they were, 18 showed gaps, all closed (notes); closing the C19 gap showed that the C19 reference model had copied a behaviour of the implementation (zero elements of repeated templates dropped) instead of the statement, which hid a genuine defect (bf2d382), and closing the C07 gap needed a supervisor that ends workers whose runtime has deadlocked after memory corruption (they use no CPU, so the CPU budget never fires). m13-m15 are a fifth round: 41 of 60 were caught as they were, 19 showed gaps, all closed (notes). m16-m18 are a sixth round: 48 of 60 were caught as they were, 12 showed gaps, all closed (notes). m19-m21 (twelve properties) are a seventh round: 23 of 36 were caught as they were, 13 showed gaps, all closed (notes; one of them, written for C14, is a memory-ownership change that the value comparison of C14 cannot see and the ownership check of C10 catches: it is kept as C10-m22). An eighth round (twelve properties, numbered after the last change of each property) added 36: 28 caught as they were, 8 gaps closed (one again an ownership change written for C14 and kept under C10); an author of that round also pointed at three hazards in code the suite does not reach: two were confirmed as genuine defects (7f82da4, c5116f7), repaired, and their shapes added to the C06 monitors (which then detect the pre-fix tree); the third (a nil key in a map keyed by an interface-typed TextMarshaler) panics in encoding/json as well and is outside the supported domain. A ninth round (eight properties) added 24: 19 caught as they were, 5 gaps closed (one, written for C02, is kept under C05, whose nesting sub catches it). The thorough run of C02 that was in progress during these rounds reported one violation on the unchanged tree: the known finding number-string-garbage seen through a Decoder (second known line of C02). `scripts/sweep_seeded.sh` re-runs all of them against the current tree.\n')
out.append('| id | file | change (first sentence of the author\'s summary) | detection |\n|---|---|---|---|')
for d in sorted(glob.glob(V+'/seeded/*/')):
    m=json.load(open(d+'meta.json'))
    s=m.get('summary','').replace('\n',' ')
    s=re.split(r'(?<=[.:;]) ',s)[0][:260]
    out.append('| %s | %s | %s | %s |'%(os.path.basename(d.rstrip('/')),', '.join(m.get('files_changed',[])),s.replace('|','\\|'),m.get('checks_run','').replace('|','\\|')[:420]))
out.append('')
txt='\n'.join(out)
p=V+'/DESIGN.md'; s=open(p).read()
b='<!-- BEGIN GENERATED TABLES -->'; e='<!-- END GENERATED TABLES -->'
if b in s:
    s=s[:s.index(b)+len(b)]+'\n'+txt+'\n'+s[s.index(e):]
else:
    s+='\n'+b+'\n'+txt+'\n'+e+'\n'
open(p,'w').write(s)
print('tables written:',n,'fixes',len(known),'known',len(glob.glob(V+'/seeded/*/')),'seeded')
