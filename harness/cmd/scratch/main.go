package main

import (
	stdjson "encoding/json"
	"fmt"
	"strconv"
	"time"

	"github.com/segmentio/encoding/json"
)

type EInt int

func (e EInt) MarshalJSON() ([]byte, error) { return []byte(`"e` + strconv.Itoa(int(e)) + `"`), nil }

type S struct {
	*EInt
	Z int
}
type S2 struct {
	P *EInt
}

func try(name string, f func() ([]byte, error)) {
	defer func() {
		if r := recover(); r != nil {
			fmt.Println(name, "PANIC", r)
		}
	}()
	b, err := f()
	fmt.Println(name, string(b), err)
}

func main() {
	try("std S", func() ([]byte, error) { return stdjson.Marshal(S{}) })
	try("pkg S", func() ([]byte, error) { return json.Marshal(S{}) })
	try("std S2", func() ([]byte, error) { return stdjson.Marshal(S2{}) })
	try("pkg S2", func() ([]byte, error) { return json.Marshal(S2{}) })
	var m1, m2 map[time.Time]string
	in := []byte(`{"0000-01-01T00:00:00Z":"x"}`)
	fmt.Println("std", stdjson.Unmarshal(in, &m1), m1)
	fmt.Println("pkg", json.Unmarshal(in, &m2), m2)
	var t1, t2 time.Time
	fmt.Println("std", stdjson.Unmarshal([]byte(`"0000-01-01T00:00:00Z"`), &t1), t1)
	fmt.Println("pkg", json.Unmarshal([]byte(`"0000-01-01T00:00:00Z"`), &t2), t2)
}
