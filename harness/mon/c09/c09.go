// Package c09: json, proto and thrift are safe and deterministic under concurrent first use.
//
// The same deterministic case (types never seen before in the process, values, a list of calls)
// is executed by many goroutines at once in the race and plain builds and by one goroutine in the
// "solo" process; every goroutine must obtain the same result for every call, the digest of the
// results must equal the solo digest (compared by the supervisor), the race detector must stay
// silent, and the pool hooks (build tag verif) must never see one pooled object held twice.
package c09

import (
	"bytes"
	stdjson "encoding/json"
	"fmt"
	"os"
	"reflect"
	"runtime"
	"sort"
	"strings"
	"sync"
	"sync/atomic"
	"time"
	"unsafe"

	"github.com/segmentio/encoding/json"
	"github.com/segmentio/encoding/proto"
	"github.com/segmentio/encoding/thrift"
	"verifharness/core"
)

var solo = os.Getenv("VERIF_SOLO") == "1"

// ---- hook monitor ------------------------------------------------------------------------------

type hookState struct {
	mu       sync.Mutex
	held     map[unsafe.Pointer]string // pooled object -> pool it was taken from
	viol     []string
	counts   map[string]int
	building map[unsafe.Pointer]int // type -> constructions in flight
	overlap  int                    // constructions of one type that overlapped another
	seq      []byte                 // order of cache events of the current case
	delay    atomic.Uint64
}

var hs = &hookState{held: map[unsafe.Pointer]string{}, counts: map[string]int{}, building: map[unsafe.Pointer]int{}}

func hook(event string, p unsafe.Pointer) {
	hs.mu.Lock()
	hs.counts[event]++
	switch {
	case strings.HasPrefix(event, "pool.get:"):
		if prev, ok := hs.held[p]; ok {
			if len(hs.viol) < 20 {
				hs.viol = append(hs.viol, fmt.Sprintf("%s handed out an object (%p) that is still held (taken from %s and not returned)", event, p, prev))
			}
		}
		hs.held[p] = event[9:]
	case strings.HasPrefix(event, "pool.put:"):
		if _, ok := hs.held[p]; !ok {
			if len(hs.viol) < 20 {
				hs.viol = append(hs.viol, fmt.Sprintf("%s returns an object (%p) that is not held (returned twice)", event, p))
			}
		}
		delete(hs.held, p)
	case strings.HasPrefix(event, "cache.miss:"):
		if hs.building[p] > 0 {
			hs.overlap++
		}
		hs.building[p]++
		hs.seq = append(hs.seq, 'm')
	case strings.HasPrefix(event, "cache.store:"):
		if hs.building[p] > 0 {
			hs.building[p]--
		}
		hs.seq = append(hs.seq, 's')
	}
	hs.mu.Unlock()
	if solo {
		return
	}
	// widen the windows between a cache miss, the construction and the store
	if strings.HasPrefix(event, "cache.") {
		n := hs.delay.Add(0x9E3779B97F4A7C15) >> 60 // 0..15
		for i := uint64(0); i < n; i++ {
			runtime.Gosched()
		}
	}
}

func installHooks() {
	json.VerifHook = hook
	proto.VerifHook = hook
	thrift.VerifHook = hook
}

// ---- types and values ----------------------------------------------------------------------------

type fieldSpec struct {
	t     reflect.Type
	ptag  string // protobuf wire word
	rep   bool
	isMap bool
}

var leafSpecs = []fieldSpec{
	{t: reflect.TypeOf(false), ptag: "varint"},
	{t: reflect.TypeOf(int32(0)), ptag: "varint"},
	{t: reflect.TypeOf(int64(0)), ptag: "varint"},
	{t: reflect.TypeOf(int64(0)), ptag: "zigzag64"},
	{t: reflect.TypeOf(float64(0)), ptag: "fixed64"},
	{t: reflect.TypeOf(""), ptag: "bytes"},
	{t: reflect.TypeOf([]byte(nil)), ptag: "bytes"},
	{t: reflect.TypeOf([]int64(nil)), ptag: "varint", rep: true},
	{t: reflect.TypeOf([]string(nil)), ptag: "bytes", rep: true},
	{t: reflect.TypeOf(map[string]int64(nil)), ptag: "bytes", rep: true, isMap: true},
	// its JSON form depends on addressability: what a codec may assume about that must not
	// depend on which entry point met the enclosing type first
	{t: reflect.TypeOf(PtrMarsh{}), ptag: "bytes"},
}

// nestingMarshaler calls json.Marshal from inside MarshalJSON: two encode buffers are in use at once
// on one goroutine.
type nestingMarshaler struct{ depth int }

func (n nestingMarshaler) MarshalJSON() ([]byte, error) {
	var in any
	if n.depth > 0 {
		in = nestingMarshaler{n.depth - 1}
	}
	return json.Marshal(map[string]any{"depth": n.depth, "in": in})
}

// PtrMarsh has its JSON methods on the pointer receiver only.
type PtrMarsh struct {
	N int64 `json:"n" protobuf:"varint,1,opt,name=n" thrift:"1"`
}

func (p *PtrMarsh) MarshalJSON() ([]byte, error) { return []byte(`"ptr"`), nil }
func (p *PtrMarsh) UnmarshalJSON(b []byte) error { p.N = int64(len(b)); return nil }

// freshStruct builds a struct type that no earlier case of this process has built: its first
// field name carries the case and type number.
func freshStruct(r *core.Rand, uniq string, depth int, rec reflect.Type) reflect.Type {
	n := r.Range(1, 6)
	fs := []reflect.StructField{}
	for i := 0; i < n; i++ {
		var sp fieldSpec
		switch k := r.Intn(12); {
		case k == 0 && depth < 2:
			sp = fieldSpec{t: freshStruct(r, fmt.Sprintf("%sN%d", uniq, i), depth+1, rec), ptag: "bytes"}
		case k == 1 && depth < 2:
			sp = fieldSpec{t: reflect.PointerTo(freshStruct(r, fmt.Sprintf("%sP%d", uniq, i), depth+1, rec)), ptag: "bytes"}
		case k == 2 && depth < 2:
			sp = fieldSpec{t: reflect.SliceOf(freshStruct(r, fmt.Sprintf("%sL%d", uniq, i), depth+1, rec)), ptag: "bytes", rep: true}
		case k == 3 && rec != nil:
			sp = fieldSpec{t: reflect.PointerTo(rec), ptag: "bytes"}
		default:
			sp = leafSpecs[r.Intn(len(leafSpecs))]
		}
		name := fmt.Sprintf("F%d", i)
		if i == 0 {
			name = "U" + uniq
		}
		label := "opt"
		if sp.rep {
			label = "rep"
		}
		tag := fmt.Sprintf(`json:"f%d,omitempty" protobuf:"%s,%d,%s,name=f%d" thrift:"%d"`, i, sp.ptag, i+1, label, i, i+1)
		if sp.isMap {
			tag += ` protobuf_key:"bytes,1,opt,name=key" protobuf_val:"varint,2,opt,name=value"`
		}
		fs = append(fs, reflect.StructField{Name: name, Type: sp.t, Tag: reflect.StructTag(tag)})
	}
	return reflect.StructOf(fs)
}

func fill(r *core.Rand, v reflect.Value, depth int) {
	t := v.Type()
	switch t.Kind() {
	case reflect.Bool:
		v.SetBool(r.Bool())
	case reflect.Int32:
		v.SetInt(int64(int32(r.Int64())))
	case reflect.Int64:
		v.SetInt(r.Int64())
	case reflect.Float64:
		v.SetFloat(r.Float(false))
	case reflect.String:
		v.SetString(strings.ToValidUTF8(r.String(10), "?"))
	case reflect.Slice:
		if t.Elem().Kind() == reflect.Uint8 {
			v.SetBytes(r.Bytes(r.Intn(8)))
			return
		}
		n := r.Intn(4)
		if depth > 2 {
			n = r.Intn(2)
		}
		s := reflect.MakeSlice(t, n, n)
		for i := 0; i < n; i++ {
			fill(r, s.Index(i), depth+1)
		}
		v.Set(s)
	case reflect.Map: // at most one entry: the bytes must not depend on iteration order
		m := reflect.MakeMap(t)
		if r.Bool() {
			k := reflect.New(t.Key()).Elem()
			fill(r, k, depth+1)
			e := reflect.New(t.Elem()).Elem()
			fill(r, e, depth+1)
			m.SetMapIndex(k, e)
		}
		v.Set(m)
	case reflect.Pointer:
		if depth > 3 || r.Chance(1, 3) {
			return
		}
		p := reflect.New(t.Elem())
		fill(r, p.Elem(), depth+1)
		v.Set(p)
	case reflect.Struct:
		for i := 0; i < t.NumField(); i++ {
			fill(r, v.Field(i), depth+1)
		}
	}
}

// ---- operations ----------------------------------------------------------------------------------

type op struct {
	name string
	run  func() uint64
	// ident, when set, returns an object whose identity (==) every caller must agree on
	ident func() any
}

func hashRes(b []byte, err error) uint64 {
	h := core.HashBytes(b)
	if err != nil {
		h = core.Mix(h, core.HashString("err:"+err.Error()))
	}
	return h
}

var (
	tBin = &thrift.BinaryProtocol{}
	tCmp = &thrift.CompactProtocol{}
)

func tokens(b []byte) uint64 {
	h := uint64(len(b))
	tk := json.NewTokenizer(b)
	n := 0
	for tk.Next() {
		h = core.Mix(h, core.HashBytes(tk.Value))
		h = core.Mix(h, uint64(tk.Depth)<<8|uint64(len(tk.Value)&0xff))
		n++
	}
	if tk.Err != nil {
		h = core.Mix(h, core.HashString(tk.Err.Error()))
	}
	return core.Mix(h, uint64(n))
}

// opsFor lists the calls made on one (type, value); every closure is safe to run from many
// goroutines at once (inputs are read-only, outputs are local).
func opsFor(prefix string, t reflect.Type, v reflect.Value, bigMap map[string]any) []op {
	val := v.Interface()
	ptr := v.Addr().Interface()
	guard := func(name string, f func() uint64) op {
		return op{name: prefix + name, run: func() (h uint64) {
			defer func() {
				if r := recover(); r != nil {
					h = core.HashString("panic:" + core.PanicSig(r))
				}
			}()
			return f()
		}}
	}
	return []op{
		guard("json.Marshal", func() uint64 { return hashRes(json.Marshal(val)) }),
		guard("json.Marshal(ptr)", func() uint64 { return hashRes(json.Marshal(ptr)) }),
		guard("json.MarshalIndent", func() uint64 { return hashRes(json.MarshalIndent(val, "", " ")) }),
		guard("json.Encoder", func() uint64 {
			var buf bytes.Buffer
			e := json.NewEncoder(&buf)
			e.SetIndent(">", "\t")
			err := e.Encode(val)
			return hashRes(buf.Bytes(), err)
		}),
		guard("json.Unmarshal", func() uint64 {
			b, err := json.Marshal(val)
			if err != nil {
				return hashRes(nil, err)
			}
			out := reflect.New(t)
			err = json.Unmarshal(b, out.Interface())
			b2, _ := json.Marshal(out.Interface())
			return hashRes(b2, err)
		}),
		guard("json.Tokenizer", func() uint64 {
			b, _ := json.Marshal(val)
			return tokens(b)
		}),
		// keys spelled differently from the field names, and keys no field has: the
		// case-insensitive and the unknown-key paths of the decoder
		guard("json.Unmarshal(other-case keys)", func() uint64 {
			b := otherCaseDoc(val)
			if b == nil {
				return 7
			}
			out := reflect.New(t)
			err := json.Unmarshal(b, out.Interface())
			b2, _ := json.Marshal(out.Interface())
			return hashRes(b2, err)
		}),
		// a document that ends inside nested scopes, then a complete one: what the first
		// leaves behind must not reach the second (whoever runs it)
		guard("json.Tokenizer(truncated, then whole)", func() uint64 {
			b, err := json.Marshal(val)
			if err != nil || len(b) < 4 {
				return 7
			}
			h := tokens(b[:len(b)*2/3])
			tk := json.NewTokenizer(b)
			n, maxDepth := 0, 0
			for tk.Next() {
				n++
				if tk.Depth > maxDepth {
					maxDepth = tk.Depth
				}
				h = core.Mix(h, core.HashBytes(tk.Value))
				h = core.Mix(h, uint64(tk.Depth)<<8|uint64(len(tk.Value)&0xff))
			}
			if tk.Err != nil {
				noteInvariant(fmt.Sprintf("the Tokenizer fails on a document json.Marshal produced (after another Tokenizer was abandoned inside nested scopes): %v; document %s", tk.Err, clip(string(b), 200)))
			}
			return core.Mix(h, uint64(n)<<16|uint64(maxDepth))
		}),
		guard("json.Marshal(map)", func() uint64 { return hashRes(json.Marshal(bigMap)) }),
		guard("proto.Marshal", func() uint64 { return hashRes(proto.Marshal(val)) }),
		guard("proto.Size", func() uint64 { return uint64(proto.Size(val)) }),
		guard("proto.Unmarshal", func() uint64 {
			b, err := proto.Marshal(val)
			if err != nil {
				return hashRes(nil, err)
			}
			out := reflect.New(t)
			err = proto.Unmarshal(b, out.Interface())
			b2, _ := proto.Marshal(out.Elem().Interface())
			return hashRes(b2, err)
		}),
		guard("proto.TypeOf", func() uint64 {
			pt := proto.TypeOf(t)
			h := core.HashString(pt.String())
			for i := 0; i < pt.NumField(); i++ {
				f := pt.Field(i)
				h = core.Mix(h, core.HashString(fmt.Sprint(f.Name, f.Number, f.Repeated, f.Type.Kind())))
			}
			return h
		}),
		{name: prefix + "proto.TypeOf(identity)", run: func() uint64 { return 1 }, ident: func() any { return proto.TypeOf(t) }},
		guard("thrift.Marshal(compact)", func() uint64 { return hashRes(thrift.Marshal(tCmp, val)) }),
		guard("thrift.Marshal(binary)", func() uint64 { return hashRes(thrift.Marshal(tBin, ptr)) }),
		guard("thrift.Unmarshal(compact)", func() uint64 {
			b, err := thrift.Marshal(tCmp, val)
			if err != nil {
				return hashRes(nil, err)
			}
			out := reflect.New(t)
			err = thrift.Unmarshal(tCmp, b, out.Interface())
			b2, _ := thrift.Marshal(tCmp, out.Elem().Interface())
			return hashRes(b2, err)
		}),
		guard("thrift.Unmarshal(binary)", func() uint64 {
			b, err := thrift.Marshal(tBin, val)
			if err != nil {
				return hashRes(nil, err)
			}
			out := reflect.New(t)
			err = thrift.Unmarshal(tBin, b, out.Interface())
			b2, _ := thrift.Marshal(tBin, out.Elem().Interface())
			return hashRes(b2, err)
		}),
	}
}

// waitOrDeadlock waits for the goroutines of the concurrent phase. Every five seconds it looks at
// the goroutine dump: when every unfinished goroutine of the phase is parked on a lock,
// semaphore or channel in two consecutive dumps, in the same place, nothing in the process can
// release them (the rest of the process is this function and the watchdog): a deadlock. The
// verdict rests on the goroutine states, not on the time that passed.
func waitOrDeadlock(c *core.Case, done *sync.WaitGroup, G int) {
	fin := make(chan struct{})
	go func() { done.Wait(); close(fin) }()
	prev := ""
	for {
		select {
		case <-fin:
			return
		case <-time.After(5 * time.Second):
		}
		buf := make([]byte, 4<<20)
		buf = buf[:runtime.Stack(buf, true)]
		var parked []string
		running := 0
		for _, g := range strings.Split(string(buf), "\n\n") {
			if !strings.Contains(g, "mon/c09.runCase.func") || strings.Contains(g, "waitOrDeadlock") {
				continue
			}
			head := g[:strings.IndexByte(g+"\n", '\n')]
			blocked := false
			for _, st := range []string{"[sync.Mutex.Lock", "[sync.RWMutex.Lock", "[sync.RWMutex.RLock", "[semacquire", "[sync.Cond.Wait", "[chan receive", "[chan send", "[select"} {
				if strings.Contains(head, st) {
					blocked = true
				}
			}
			if !blocked {
				running++
				continue
			}
			// goroutine number + the frames (without arguments and addresses)
			var frames []string
			for _, ln := range strings.Split(g, "\n")[1:] {
				if !strings.HasPrefix(ln, "\t") {
					if i := strings.IndexByte(ln, '('); i > 0 {
						ln = ln[:i]
					}
					frames = append(frames, ln)
				}
			}
			parked = append(parked, head[:strings.IndexByte(head, '[')]+strings.Join(frames, "<"))
		}
		sort.Strings(parked)
		cur := strings.Join(parked, "\n")
		if running == 0 && len(parked) > 0 && cur == prev {
			lib := ""
			for _, f := range strings.FieldsFunc(cur, func(r rune) bool { return r == '<' || r == '\n' }) {
				if strings.HasPrefix(f, "github.com/segmentio/encoding/") {
					lib = f
					break
				}
			}
			c.Violation("concurrent|"+lib, "deadlock", fmt.Sprintf("%d of %d goroutines of the concurrent phase are parked for good (same place in two dumps 5 s apart, none runnable): %s", len(parked), G, clip(cur, 1500)), nil)
			os.Exit(3) // the goroutines cannot be recovered; the supervisor continues behind this case
		}
		prev = cur
		if running > 0 {
			prev = ""
		}
	}
}

// otherCaseDoc renders v with the reference implementation and rewrites every object key to upper
// case (every third one to a key no field has).
func otherCaseDoc(v any) []byte {
	b, err := stdjson.Marshal(v)
	if err != nil {
		return nil
	}
	dec := stdjson.NewDecoder(bytes.NewReader(b))
	dec.UseNumber()
	var doc any
	if dec.Decode(&doc) != nil {
		return nil
	}
	n := 0
	var walk func(x any) any
	walk = func(x any) any {
		switch y := x.(type) {
		case map[string]any:
			keys := make([]string, 0, len(y))
			for k := range y {
				keys = append(keys, k)
			}
			sort.Strings(keys)
			out := make(map[string]any, len(y))
			for _, k := range keys {
				n++
				nk := strings.ToUpper(k)
				if n%3 == 0 {
					nk = "no_such_" + k
				}
				out[nk] = walk(y[k])
			}
			return out
		case []any:
			for i := range y {
				y[i] = walk(y[i])
			}
		}
		return x
	}
	out, err := stdjson.Marshal(walk(doc))
	if err != nil {
		return nil
	}
	return out
}

var (
	invMu sync.Mutex
	inv   []string
)

func noteInvariant(msg string) {
	invMu.Lock()
	if len(inv) < 10 {
		inv = append(inv, msg)
	}
	invMu.Unlock()
}

var installOnce sync.Once

func runCase(c *core.Case) {
	installOnce.Do(installHooks)
	r := c.Rng
	c.Journal("concurrent-first-use")
	// 1. types never seen before in this process, plus one declared recursive type (first use
	// the first time its number comes up) and the values
	ntypes := r.Range(3, 6)
	rec := recTypes[c.Index%len(recTypes)]
	var ops []op
	bigMap := map[string]any{}
	for i := r.Range(3, 20); i > 0; i-- {
		bigMap[r.ASCIIString(1, 8)] = r.Int64()
	}
	var tnames []string
	for k := 0; k < ntypes; k++ {
		var t reflect.Type
		if k == 0 {
			t = rec
		} else if k == 1 {
			t = peerTypes[c.Index%len(peerTypes)] // its mutually recursive partner, used on its own
		} else {
			var rp reflect.Type
			if r.Bool() {
				rp = rec
			}
			t = freshStruct(r, fmt.Sprintf("s%dc%dt%d", c.Seed, c.Index, k), 0, rp)
		}
		v := reflect.New(t).Elem()
		fill(r, v, 0)
		ops = append(ops, opsFor(fmt.Sprintf("t%d:", k), t, v, bigMap)...)
		tnames = append(tnames, t.String())
	}
	// a type none of the three packages can represent: every entry point fails or panics on it
	// (the panics are recovered), whatever it holds at that moment - locks included - must be
	// released for the other callers
	{
		bt := reflect.StructOf([]reflect.StructField{
			{Name: fmt.Sprintf("Bs%dc%d", c.Seed, c.Index), Type: reflect.TypeOf(int64(0)), Tag: `json:"a" thrift:"1"`},
			{Name: "C", Type: reflect.TypeOf(make(chan int)), Tag: `json:"c" thrift:"2"`},
		})
		bv := reflect.New(bt).Elem()
		failing := func(name string, f func() error) op {
			return op{name: "bad:" + name, run: func() (h uint64) {
				defer func() {
					if r := recover(); r != nil {
						h = core.HashString("panic:" + core.PanicSig(r))
					}
				}()
				if err := f(); err != nil {
					return core.HashString("err:" + err.Error())
				}
				return 1
			}}
		}
		ops = append(ops,
			failing("proto.TypeOf(unsupported)", func() error { proto.TypeOf(bt); return nil }),
			failing("proto.Marshal(unsupported)", func() error { _, err := proto.Marshal(bv.Interface()); return err }),
			failing("proto.Unmarshal(unsupported)", func() error { return proto.Unmarshal([]byte{8, 1}, reflect.New(bt).Interface()) }),
			failing("thrift.Marshal(unsupported)", func() error { _, err := thrift.Marshal(tCmp, bv.Interface()); return err }),
			failing("thrift.Unmarshal(unsupported)", func() error { return thrift.Unmarshal(tBin, []byte{0}, reflect.New(bt).Interface()) }),
			failing("json.Marshal(unsupported)", func() error { _, err := json.Marshal(bv.Interface()); return err }),
			failing("json.Encoder(unsupported)", func() error {
				var buf bytes.Buffer
				e := json.NewEncoder(&buf)
				err := e.Encode(bv.Interface())
				if err2 := e.Encode(map[string]int{"after": 1}); err2 != nil || !strings.HasSuffix(buf.String(), "{\"after\":1}\n") {
					return fmt.Errorf("Encoder after a failed Encode: %v %q (first error %v)", err2, buf.String(), err)
				}
				return err
			}),
			failing("json.Marshal(marshaler that marshals)", func() error {
				b, err := json.Marshal([]any{nestingMarshaler{3}, "x"})
				if err == nil && string(b) != `[{"depth":3,"in":{"depth":2,"in":{"depth":1,"in":{"depth":0,"in":null}}}},"x"]` {
					return fmt.Errorf("wrong output %s", b)
				}
				return err
			}),
			failing("json.Unmarshal(unsupported)", func() error { return json.Unmarshal([]byte(`{"a":1,"c":2}`), reflect.New(bt).Interface()) }),
			// encoders that fail in the middle of a sorted map, holding pooled scratch space
			failing("json.Marshal(map with unsupported value)", func() error {
				_, err := json.Marshal(map[string]any{"a": 1, "m": map[string]any{"x": 1, "y": make(chan int), "z": 3}, "z": "s"})
				return err
			}),
			failing("json.Marshal(map with invalid RawMessage)", func() error {
				_, err := json.Marshal(map[string]json.RawMessage{"a": json.RawMessage(`1`), "b": json.RawMessage(`{`), "c": json.RawMessage(`[2]`)})
				return err
			}),
			failing("json.Marshal(nested maps)", func() error {
				b, err := json.Marshal(map[string]any{"x": map[string]any{"x": map[string]any{"y": 1}, "y": 1}, "k": map[string]string{"b": "1", "a": "2"}, "l": map[string][]string{"q": {"1"}, "p": nil}})
				if err == nil && string(b) != `{"k":{"a":"2","b":"1"},"l":{"p":null,"q":["1"]},"x":{"x":{"y":1},"y":1}}` {
					return fmt.Errorf("wrong output %s", b)
				}
				return err
			}),
		)
		tnames = append(tnames, bt.String())
	}
	// 2. the schedule: G goroutines, each running all calls in its own order, released together
	G := []int{2, 4, 8, 16, 32}[r.Intn(5)]
	procs := []int{2, 4, 8, 16}[r.Intn(4)]
	perms := make([][]int, G)
	for g := range perms {
		p := make([]int, len(ops))
		for i := range p {
			p[i] = i
		}
		if g > 0 { // goroutine 0 keeps the canonical order, the others shuffle
			for i := len(p) - 1; i > 0; i-- {
				j := r.Intn(i + 1)
				p[i], p[j] = p[j], p[i]
			}
		}
		perms[g] = p
	}
	if solo {
		G = 1
	} else {
		runtime.GOMAXPROCS(procs)
	}
	hs.mu.Lock()
	hs.seq = hs.seq[:0]
	overlap0 := hs.overlap
	hs.mu.Unlock()
	results := make([][]uint64, G)
	idents := make([][]any, G)
	var start, done sync.WaitGroup
	start.Add(1)
	for g := 0; g < G; g++ {
		results[g] = make([]uint64, len(ops))
		idents[g] = make([]any, len(ops))
		done.Add(1)
		go func(g int) {
			defer done.Done()
			start.Wait()
			for _, i := range perms[g] {
				results[g][i] = ops[i].run()
				if ops[i].ident != nil {
					idents[g][i] = ops[i].ident()
				}
			}
		}(g)
	}
	start.Done()
	waitOrDeadlock(c, &done, G)
	// 3. verdicts
	w := map[string]any{"types": tnames, "goroutines": G, "gomaxprocs": procs}
	for i := range ops {
		for g := 1; g < G; g++ {
			if results[g][i] != results[0][i] {
				name := ops[i].name[strings.IndexByte(ops[i].name, ':')+1:]
				c.Violation("concurrent|"+name, "goroutines-disagree", fmt.Sprintf("%s returned different results to goroutines 0 and %d (%016x vs %016x) with %d goroutines, GOMAXPROCS %d, types %v", ops[i].name, g, results[0][i], results[g][i], G, procs, clip(fmt.Sprint(tnames), 300)), w)
				break
			}
		}
	}
	// values that have an identity (proto.Type) are the same object for every caller, and for
	// a later call (running alone, TypeOf(t) == TypeOf(t) always holds)
	for i := range ops {
		if ops[i].ident == nil {
			continue
		}
		later := ops[i].ident()
		for g := 0; g < G; g++ {
			if idents[g][i] != later {
				c.Violation("concurrent|proto.TypeOf", "callers-got-different-objects", fmt.Sprintf("%s: goroutine %d of %d obtained a proto.Type that is not the one later calls return (TypeOf(t) == TypeOf(t) holds for every sequential use); types %v", ops[i].name, g, G, clip(fmt.Sprint(tnames), 200)), w)
				break
			}
		}
	}
	// the caches hold the same codecs afterwards: one more sequential round
	for i := range ops {
		if h := ops[i].run(); h != results[0][i] {
			name := ops[i].name[strings.IndexByte(ops[i].name, ':')+1:]
			c.Violation("afterwards|"+name, "differs-from-concurrent-result", fmt.Sprintf("%s called again after the concurrent phase returns %016x, during it %016x", ops[i].name, h, results[0][i]), w)
		}
	}
	// the solo process must see the same results (compared by the supervisor)
	h := uint64(len(ops))
	for i := range ops {
		h = core.Mix(h, results[0][i])
	}
	c.Digest(fmt.Sprintf("results#%d", c.Index), h)
	// per-call digests of a few cases help localise a cross-process difference
	if c.Index%16 == 0 {
		for i := range ops {
			name := ops[i].name
			c.Digest(fmt.Sprintf("%s#%d.%d", name[strings.IndexByte(name, ':')+1:], c.Index, i), results[0][i])
		}
	}
	hs.mu.Lock()
	viol := hs.viol
	hs.viol = nil
	seq := string(hs.seq)
	overlap := hs.overlap - overlap0
	nheld := len(hs.held)
	hs.mu.Unlock()
	for _, v := range viol {
		c.Violation("pool-ownership", "object-held-twice", v, w)
	}
	invMu.Lock()
	for _, v := range inv {
		c.Violation("concurrent|json.Tokenizer", "state-of-another-tokenizer", v, w)
	}
	inv = nil
	invMu.Unlock()
	c.Count("calls", (G+1)*len(ops))
	c.Count("goroutines", G)
	c.Count("cache.overlapping-constructions", overlap)
	c.Count("pool.objects-not-returned", nheld)
	c.Distinct(core.Mix(core.HashString(seq), uint64(G)<<8|uint64(procs)), len(seq) > 0)
	if c.Index%50 == 0 || overlap > 0 {
		c.Sample(overlap, map[string]any{"sub": "first-use", "goroutines": G, "gomaxprocs": procs, "cache_events": clip(seq, 200), "overlapping_constructions": overlap, "types": clip(fmt.Sprint(tnames), 300)})
	}
	if c.Index == 0 || c.Index%200 == 199 {
		hs.mu.Lock()
		keys := make([]string, 0, len(hs.counts))
		for k := range hs.counts {
			keys = append(keys, k)
		}
		sort.Strings(keys)
		for _, k := range keys {
			c.Count("hook."+k, hs.counts[k])
			hs.counts[k] = 0
		}
		hs.mu.Unlock()
	}
}

func clip(s string, n int) string {
	if len(s) > n {
		return s[:n] + "…"
	}
	return s
}

// ---- shared types: many goroutines, few keys, long histories -------------------------------------

type Shared struct {
	ID    int64            `json:"id" protobuf:"varint,1,opt,name=id" thrift:"1"`
	Name  string           `json:"name" protobuf:"bytes,2,opt,name=name" thrift:"2"`
	Tags  []string         `json:"tags" protobuf:"bytes,3,rep,name=tags" thrift:"3"`
	Attrs map[string]int64 `json:"attrs" protobuf:"bytes,4,rep,name=attrs" protobuf_key:"bytes,1,opt,name=key" protobuf_val:"varint,2,opt,name=value" thrift:"4"`
	Sub   *Shared          `json:"sub,omitempty" protobuf:"bytes,5,opt,name=sub" thrift:"5"`
}

// runShared hammers one shared type: per-goroutine values, every result checked against the value
// it came from (round trips), which detects a pooled buffer or scratch struct seen by two callers.
func runShared(c *core.Case) {
	installOnce.Do(installHooks)
	c.Journal("shared-type")
	if c.Index == 0 && !solo && !c.Replay {
		// floor: the first-use cases before this one must have produced overlapping first uses
		hs.mu.Lock()
		ov := hs.overlap
		hs.mu.Unlock()
		if ov == 0 {
			c.Inconclusive("no two constructions of one type ever overlapped: the workload did not exercise concurrent first use")
		}
	}
	r := c.Rng
	G := 16
	if solo {
		G = 1
	} else {
		runtime.GOMAXPROCS([]int{4, 8, 16}[r.Intn(3)])
	}
	iters := 60
	type bad struct{ what string }
	var mu sync.Mutex
	var bads []bad
	var done sync.WaitGroup
	seeds := make([]*core.Rand, G)
	for g := range seeds {
		seeds[g] = r.Fork(uint64(g))
	}
	for g := 0; g < G; g++ {
		done.Add(1)
		go func(g int) {
			defer done.Done()
			rr := seeds[g]
			report := func(s string) {
				mu.Lock()
				if len(bads) < 10 {
					bads = append(bads, bad{s})
				}
				mu.Unlock()
			}
			var held, heldCopy []byte
			for it := 0; it < iters; it++ {
				v := Shared{ID: int64(g)<<32 | int64(it), Name: fmt.Sprintf("g%d-i%d-%s", g, it, rr.ASCIIString(0, 40)), Tags: []string{rr.ASCIIString(1, 5), rr.ASCIIString(1, 5)}, Attrs: map[string]int64{}}
				for k := rr.Intn(12); k > 0; k-- {
					v.Attrs[rr.ASCIIString(1, 6)] = rr.Int64()
				}
				if rr.Bool() {
					v.Sub = &Shared{ID: -v.ID, Name: v.Name + "/sub", Attrs: map[string]int64{"k": int64(it)}}
				}
				if it%8 == 3 {
					v.Name += strings.Repeat("L", 70000) // an output beyond 64 KiB
				}
				// what an earlier call returned stays what it was
				if held != nil && !bytes.Equal(held, heldCopy) {
					report(fmt.Sprintf("the bytes returned by json.Marshal in goroutine %d changed after later calls (%d bytes)", g, len(held)))
				}
				// json
				b, err := json.Marshal(&v)
				if it%8 == 3 || held == nil {
					held, heldCopy = b, append([]byte(nil), b...)
				}
				var back Shared
				if err == nil {
					err = json.Unmarshal(b, &back)
				}
				if err != nil || !sameShared(&v, &back) {
					report(fmt.Sprintf("json round trip of goroutine %d iteration %d gives another value (err %v): %s", g, it, err, clip(string(b), 200)))
				}
				if tokens(b) == 0 {
					report("tokenizer")
				}
				// proto (maps with several entries: the scratch struct pool of map decoding)
				pb, err := proto.Marshal(&v)
				back = Shared{}
				if err == nil {
					err = proto.Unmarshal(pb, &back)
				}
				if err != nil || !sameShared(&v, &back) || proto.Size(&v) != len(pb) {
					report(fmt.Sprintf("proto round trip of goroutine %d iteration %d gives another value (err %v, size %d, len %d)", g, it, err, proto.Size(&v), len(pb)))
				}
				// a decode that fails inside a map entry, then entries without key / without value:
				// what one call leaves in pooled scratch must not reach the next caller
				bad := []byte{0x22, 0x0a, 0x0a, 0x03, 'b', 'a', 'd', 0x10, 0x07, 0x1a, 0x05, 0x00}
				var sink Shared
				if err := proto.Unmarshal(bad, &sink); err == nil {
					report("proto.Unmarshal accepted a map entry with a truncated member")
				}
				val := int64(g*1000 + it)
				nokey := protoEntry(nil, &val)
				noval := protoEntry([]byte(fmt.Sprintf("k%d", g)), nil)
				var kl Shared
				if err := proto.Unmarshal(append(nokey, noval...), &kl); err != nil || len(kl.Attrs) != 2 || kl.Attrs[""] != val || kl.Attrs[fmt.Sprintf("k%d", g)] != 0 {
					report(fmt.Sprintf("proto map entries without key / without value decode to %v (err %v) in goroutine %d iteration %d, want map[\"\":%d k%d:0]", kl.Attrs, err, g, it, val, g))
				}
				// thrift
				for _, p := range []thrift.Protocol{tCmp, tBin} {
					tb, err := thrift.Marshal(p, &v)
					back = Shared{}
					if err == nil {
						err = thrift.Unmarshal(p, tb, &back)
					}
					if err != nil || !sameShared(&v, &back) {
						report(fmt.Sprintf("thrift round trip of goroutine %d iteration %d gives another value (err %v)", g, it, err))
					}
				}
			}
		}(g)
	}
	done.Wait()
	for _, b := range bads {
		c.Violation("shared-type", "round-trip-differs-under-concurrency", b.what, nil)
	}
	hs.mu.Lock()
	viol := hs.viol
	hs.viol = nil
	hs.mu.Unlock()
	for _, v := range viol {
		c.Violation("pool-ownership", "object-held-twice", v, nil)
	}
	c.Count("shared.round-trips", G*iters*4)
	c.Distinct(core.Mix(uint64(c.Index), uint64(G)), true)
}

// protoEntry hand-builds one Attrs entry (field 4) with the key and / or the value present.
func protoEntry(key []byte, val *int64) []byte {
	var e []byte
	if key != nil {
		e = append(append(e, 0x0a, byte(len(key))), key...)
	}
	if val != nil {
		e = append(e, 0x10)
		v := uint64(*val)
		for v >= 0x80 {
			e = append(e, byte(v)|0x80)
			v >>= 7
		}
		e = append(e, byte(v))
	}
	return append([]byte{0x22, byte(len(e))}, e...)
}

func sameShared(a, b *Shared) bool {
	if (a == nil) != (b == nil) {
		return false
	}
	if a == nil {
		return true
	}
	if a.ID != b.ID || a.Name != b.Name || len(a.Tags) != len(b.Tags) || len(a.Attrs) != len(b.Attrs) {
		return false
	}
	for i := range a.Tags {
		if a.Tags[i] != b.Tags[i] {
			return false
		}
	}
	for k, v := range a.Attrs {
		if w, ok := b.Attrs[k]; !ok || w != v {
			return false
		}
	}
	return sameShared(a.Sub, b.Sub)
}

func init() {
	core.Register(&core.Monitor{
		Prop:    "C09",
		Rule:    "first-use: per case 3-6 types the process has never seen (reflect.StructOf types whose first field name carries seed, case and type number; both halves of one of 240 declared mutually recursive type pairs, the second reached from the first through a map value and used on its own as well) with json, protobuf and thrift tags, one value each, and 17 calls per type (json.Marshal by value and pointer, MarshalIndent, Encoder, Unmarshal, Unmarshal of the document with its keys in another case or unknown, Tokenizer, a Tokenizer abandoned inside nested scopes followed by one over the whole document, Marshal of a map[string]any; proto.Marshal, Size, Unmarshal, TypeOf; thrift.Marshal and Unmarshal in both protocols). Per case also one type none of the packages can represent (every entry point fails or panics on it, recovered) and sorted-map encodes that fail half-way while holding pooled scratch space. 2-32 goroutines, released together under GOMAXPROCS 2-16, each run all calls in their own order; the verif hooks yield 0-15 times at every codec-cache miss and store. Checked: every goroutine gets the same result for every call, and the identical proto.Type object; a sequential round afterwards gets it too; the digest of the results equals the digest of the same case run by one goroutine in a separate GOMAXPROCS=1 process (supervisor); the race detector reports nothing (race build, log scanned by the supervisor); the pool hooks never see a pooled object handed out while held or returned while not held. shared: 16 goroutines x 60 iterations of json/proto/thrift round trips of per-goroutine values of one shared type (maps with up to 12 entries). Evidence counts calls, hook events per pool and cache, overlapping constructions of one type, and distinct cache-event orders.",
		Trusted: []string{"the Go race detector for the no-data-race clause", "the solo process as the 'running alone' reference", "sync.Pool itself (the hook observes the package's use of it)"},
		Subs: []core.Sub{
			{Name: "first-use", N: core.Const(240, 2400), Run: runCase, Serial: true},
			{Name: "shared", N: core.Const(6, 100), Run: runShared, Serial: true},
		},
	})
}
