package jtypes

import (
	"fmt"
	"reflect"
	"strconv"
	"strings"
)

// Types added after the second and third rounds of seeded changes and the defects they exposed.

// --- named scalar kinds whose marshalers have pointer receivers ----------------------------------

type PInt int

func (p *PInt) MarshalJSON() ([]byte, error) { return []byte(strconv.Itoa(int(*p) + 1000)), nil }

type PTInt int

func (p *PTInt) MarshalText() ([]byte, error) { return []byte("pt" + strconv.Itoa(int(*p))), nil }

type PBool bool

func (p *PBool) MarshalJSON() ([]byte, error) {
	if *p {
		return []byte(`"yes"`), nil
	}
	return []byte(`"no"`), nil
}

// StrOptP: the ",string" option on fields whose marshalers only apply to addressable values.
type StrOptP struct {
	A PInt   `json:"a,string"`
	B PTInt  `json:"b,string"`
	C PBool  `json:"c,string"`
	D *PInt  `json:"d,string"`
	E SInt   `json:"e,string"`
	F NInt8  `json:"f,string,omitempty"`
	G PTInt  `json:"g,omitempty"`
	H []PInt `json:"h"`
}

// HoldsStrOptP reaches StrOptP through non-addressable positions.
type HoldsStrOptP struct {
	V StrOptP
	M map[string]StrOptP
	I []any
	P *StrOptP
	A [2]StrOptP
}

// --- both kinds of marshalers on one type, with different receivers -------------------------------

type MixVT int // value MarshalText, pointer MarshalJSON

func (v MixVT) MarshalText() ([]byte, error) { return []byte("text" + strconv.Itoa(int(v))), nil }
func (v *MixVT) MarshalJSON() ([]byte, error) {
	return []byte(`"json` + strconv.Itoa(int(*v)) + `"`), nil
}

type MixVJ struct{ N int } // value MarshalJSON, pointer MarshalText

func (v MixVJ) MarshalJSON() ([]byte, error)  { return []byte(`{"j":` + strconv.Itoa(v.N) + `}`), nil }
func (v *MixVJ) MarshalText() ([]byte, error) { return []byte("t" + strconv.Itoa(v.N)), nil }

type HoldsMix struct {
	A  MixVT
	B  MixVJ
	PA *MixVT
	PB *MixVJ
	SA []MixVT
	MA map[string]MixVT
	KA map[MixVT]int
	AA [2]MixVJ
	I  any
}

// --- embedding: dominance by depth and by tag ------------------------------------------------------

type D1 struct{ X int }
type D2 struct{ X, Y int }
type Mid struct{ D2 }
type Mid2 struct {
	Mid
	Y string // shallower than D2.Y
}

// DepthWins: D1.X (depth 1) dominates Mid.D2.X (depth 2).
type DepthWins struct {
	D1
	Mid
}

// DepthWins2: three levels, a pointer in between.
type DepthWins2 struct {
	*Mid2
	D1
	Z int
}

type T1 struct {
	X int `json:"x"`
}
type T2 struct {
	X int // untagged, JSON name "X"
	Q int `json:"x"` // same JSON name as T1.X at the same depth in TagWins
}

// TagWins: at equal depth a tagged field dominates untagged ones of the same JSON name; two
// tagged ones annihilate each other.
type TagWins struct {
	T1
	T2
}

type U1 struct{ Name string }
type U2 struct {
	Name string `json:"Name"`
}
type TagWins2 struct {
	U1
	U2
}

// --- interfaces and omitempty ------------------------------------------------------------------------

type IfaceOmit struct {
	I any          `json:"i,omitempty"`
	E error        `json:"e,omitempty"`
	S fmt.Stringer `json:"s,omitempty"`
	J any          `json:"j"`
	P *any         `json:"p,omitempty"`
}

type strg struct{ s string }

func (s *strg) String() string { return s.s }

// --- pointer-typed map keys ------------------------------------------------------------------------------

type PK struct{ A int }

func (k *PK) MarshalText() ([]byte, error) { return []byte("pk" + strconv.Itoa(k.A)), nil }

type VK struct{ A int }

func (k VK) MarshalText() ([]byte, error) { return []byte("vk" + strconv.Itoa(k.A)), nil }

// SK, AK: key types that are pointer-shaped without being pointers (one pointer field, a
// one-element array of a pointer).
type SK struct{ P *int }

func (k SK) MarshalText() ([]byte, error) {
	if k.P == nil {
		return []byte("sk-nil"), nil
	}
	return []byte("sk" + strconv.Itoa(*k.P)), nil
}

type AK [1]*int

func (k AK) MarshalText() ([]byte, error) {
	if k[0] == nil {
		return []byte("ak-nil"), nil
	}
	return []byte("ak" + strconv.Itoa(*k[0])), nil
}

type PtrKeys struct {
	A map[*PK]int
	B map[*VK]string
	C map[VK]int
	D map[SK]bool
	E map[AK]string
}

// --- string-kind key whose UnmarshalText normalises and rejects ---------------------------------------------

type LKey string

func (k *LKey) UnmarshalText(b []byte) error {
	if strings.Contains(string(b), "bad") {
		return fmt.Errorf("LKey: rejected %q", b)
	}
	*k = LKey(strings.ToLower(string(b)))
	return nil
}

type LKeyMaps struct {
	M map[LKey]int
	N map[LKey][]string
}

// --- recursive named array, slice and map types -----------------------------------------------------------

type RArr [1]*RArr
type RArr2 [2]*RArr2
type RSl []RSl
type RMp map[string]RMp
type RArrS struct {
	A [1]*RArrS
	V int
}

// --- promoted omitempty fields behind an embedded pointer, at non-zero offsets ------------------------------

type InnerOE struct {
	N int
	M map[string]int `json:",omitempty"`
	S []int          `json:"s,omitempty"`
	P *int           `json:",omitempty"`
	T string         `json:",omitempty"`
	B bool           `json:",omitempty"`
}

type OuterOE struct {
	*InnerOE
	Z int
}

type OuterOE2 struct {
	A int64
	*InnerOE
}

// --- cycles through a non-empty interface -------------------------------------------------------------------

type Linker interface{ Link() }

type LNode struct {
	V    int
	Next Linker
}

func (*LNode) Link() {}

// Library2 lists the types above that take part as stand-alone encode targets.
var Library2 = []reflect.Type{
	reflect.TypeOf(StrOptP{}), reflect.TypeOf(HoldsStrOptP{}), reflect.TypeOf(MixVT(0)), reflect.TypeOf(MixVJ{}), reflect.TypeOf(HoldsMix{}),
	reflect.TypeOf(DepthWins{}), reflect.TypeOf(DepthWins2{}), reflect.TypeOf(TagWins{}), reflect.TypeOf(TagWins2{}), reflect.TypeOf(Mid2{}),
	reflect.TypeOf(IfaceOmit{}), reflect.TypeOf(PtrKeys{}), reflect.TypeOf(LKeyMaps{}),
	reflect.TypeOf(RArr{}), reflect.TypeOf(RArr2{}), reflect.TypeOf(RSl{}), reflect.TypeOf(RMp{}), reflect.TypeOf(RArrS{}),
	reflect.TypeOf(InnerOE{}), reflect.TypeOf(OuterOE{}), reflect.TypeOf(OuterOE2{}), reflect.TypeOf(LNode{}),
}

func init() { Library = append(Library, Library2...) }

// DecodeLibrary is Library without the types that hold maps keyed by pointers: those cannot be
// decoded into (by either implementation) and two copies of one value do not compare equal.
var DecodeLibrary []reflect.Type

func init() {
	for _, t := range Library {
		if !strings.Contains(t.String(), "PtrKeys") {
			DecodeLibrary = append(DecodeLibrary, t)
		}
	}
}
