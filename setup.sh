#!/bin/bash
# Builds the supervisor and warms the Go build cache for every build mode
# (plain, purego, -race, -asan), offline, from files on disk only.
export GOFLAGS=-mod=mod GOPROXY=off GOSUMDB=off GOTOOLCHAIN=local CGO_ENABLED=1
cd "$(dirname "$0")" || exit 2
mkdir -p bin evidence replays
set -e
cd harness
go build -o ../bin/vcheck ./cmd/vcheck
tmp=$(mktemp -d /verif/.build/setup.XXXXXX 2>/dev/null || (mkdir -p /verif/.build && mktemp -d /verif/.build/setup.XXXXXX))
go build -tags verif -o "$tmp/w-plain" ./cmd/vworker &
go build -tags verif,purego -o "$tmp/w-purego" ./cmd/vworker &
wait
go build -tags verif -race -o "$tmp/w-race" ./cmd/vworker &
go build -tags verif -asan -o "$tmp/w-asan" ./cmd/vworker &
wait
rm -rf "$tmp"
echo setup ok
