#!/bin/bash
# usage: verify_mutant.sh <mutant dir with patch.diff demo_test.go|demo meta.json>
# Confirms in a scratch worktree: suite passes with patch, demo fails with patch, demo passes without.
export GOFLAGS=-mod=mod GOPROXY=off GOSUMDB=off GOTOOLCHAIN=local
d=$(realpath "$1"); wt=/tmp/wt/verify.$$
git -C /repo worktree add --detach "$wt" HEAD >/dev/null 2>&1 || exit 2
trap 'git -C /repo worktree remove --force "$wt" >/dev/null 2>&1' EXIT
cd "$wt"
demo=$(ls "$d"/demo*_test.go 2>/dev/null | head -1)
if [ -n "$demo" ]; then
  dest=$(head -1 "$demo" | sed -n 's,.*copy to: *\([a-zA-Z0-9_/]*\).*,\1,p'); dest=${dest%/}
  [ -z "$dest" ] && { echo "cannot find destination dir in $demo"; exit 2; }
  run=$(grep -o 'func Test[A-Za-z0-9_]*' "$demo" | sed 's/func //' | paste -sd'|')
  race=""; grep -q '"-race"\|go test -race\|-race' "$d/meta.json" && race="-race"
  democmd="cp $demo $dest/zz_demo_test.go && go test $race -vet=off -count=1 -run '^($run)\$' ./$dest/"
else
  echo "no demo_test.go; use demo_cmd from meta.json manually"; jq -r .demo_cmd "$d/meta.json"; exit 2
fi
echo "== demo without patch"; eval "$democmd" >/tmp/vm.$$.a 2>&1; a=$?; tail -3 /tmp/vm.$$.a
rm -f $dest/zz_demo_test.go
git apply "$d/patch.diff" || { echo "patch does not apply"; exit 2; }
echo "== suite with patch"; go test -vet=off -count=1 ./... >/tmp/vm.$$.s 2>&1; s=$?; tail -8 /tmp/vm.$$.s
echo "== demo with patch"; eval "$democmd" >/tmp/vm.$$.b 2>&1; b=$?; tail -5 /tmp/vm.$$.b
rm -f /tmp/vm.$$.*
echo "RESULT demo_without=$a (want 0) suite_with=$s (want 0) demo_with=$b (want !=0)"
[ $a -eq 0 ] && [ $s -eq 0 ] && [ $b -ne 0 ] && echo CONFIRMED || echo NOT-CONFIRMED
